"""C16 - write() is deterministic, leaves data alone, states STRT/STOP/STEP truthfully."""
import random

from harness import core, tlc, writefx

RULE = ("spec->code: every history {build|read ok|read with wrong STOP} ; {edit index|other curve|header}* ; write(opts)^k that "
        "the WriteAlgo model admits within MaxOps (all paths of its state graph, TLC) x index shapes {increasing, decreasing, "
        "single sample, irregular, returning to its first value; and a sample of the histories on 255..2048-row indexes} is executed on real LASFile objects with a full snapshot before and after every write(); "
        "traces validated by Trace_Write.  Distinct by full history (origin, shape, edits, option sets).")


def run(ctx):
    rng = random.Random(ctx.seed)
    thorough = ctx.tier == "thorough"
    shapes = ["inc", "dec", "single", "irregular", "returning"]
    optsets = ["default", "v12", "wrap"] if not thorough else ["default", "v12", "wrap", "fmt2"]
    hists, nedges = writefx.histories_from_tlc(ctx, shapes, optsets, 5 if not thorough else 6)
    ctx.extra["model_histories"] = len(hists)
    # only maximal histories are run (their prefixes are exercised on the way); writes get varied option sets
    maximal = [h for h in hists if len(h) >= 2]
    limit = 40000 if thorough else 1500
    ctx.exhaustive = len(maximal) <= limit
    if len(maximal) > limit:
        maximal = rng.sample(maximal, limit)
    traces, meta = [], []
    extra_opts = sorted(writefx.OPTS)
    for h in maximal:
        h2 = []
        for e in h:
            e = dict(e)
            if e["op"] == "write" and rng.random() < 0.35:
                e["opts"] = rng.choice(extra_opts)       # option sets beyond the model's three representatives
            h2.append(e)
        # consecutive identical writes are the determinism probe: repeat the last write once more
        h2.append(dict(h2[-1]))
        traces.append(writefx.run_history(h2, rng))
        meta.append({"history": h2})
        ctx.evaluations += 1
        ctx.case(h2)
    # the same histories on tall indexes (row counts around 256 / 512 / 1000 / 2000 / 2048)
    inc = [h for h in maximal if h[0].get("shape") == "inc"]
    for n in writefx.TALL:
        for h in rng.sample(inc, min(len(inc), 40 if thorough else 8)):
            h2 = [dict(e) for e in h]
            h2[0]["shape"] = "tall%d" % n
            h2.append(dict(h2[-1]))
            traces.append(writefx.run_history(h2, rng))
            meta.append({"history": h2})
            ctx.evaluations += 1
            ctx.case(h2)
    if thorough:
        from harness import suitetrace
        doc = suitetrace.record()
        if doc is not None:
            ctx.extra["suite_traces"] = {"pytest": doc["pytest_summary"], "write_traces": len(doc["writes"])}
            for t in doc["writes"]:
                traces.append(t)
                meta.append({"history": [{"kind": "repository test-suite (harness.recorder)"}]})
    fails, _ = ctx.validate("Trace_Write", {"traces": traces})
    for tid, l, clause in fails:
        if clause.startswith("C16.Harness"):
            raise tlc.MachineryError("harness inconsistency in trace %d: %s" % (tid, meta[tid]))
        ev = traces[tid][l]
        changed = []
        for a, b in zip(ev["pre"]["secs"], ev["post"]["secs"]):
            for x, y in zip(a["items"], b["items"]):
                if x != y:
                    changed.append((a["name"], x, y))
        ctx.report(clause, "history=%s out=%s changed=%s" % ([(e.get("kind") or e.get("what") or e.get("opts")) for e in meta[tid]["history"]],
                                                             ev.get("out"), changed[:3]),
                   {"meta": meta[tid], "event": l, "write_event": {k: v for k, v in ev.items()}})
    ctx.require_ops("Trace_Write", ["origin", "edit", "write"])
    ctx.sample({"history": meta[0]["history"], "last_write_out": traces[0][-1]["out"]})
    ctx.sample({"history": meta[-1]["history"]})
    ctx.assumptions += [
        "STRT/STOP/STEP 'to format precision': within half a unit of the last digit of the coarser of '%.5f' and the index "
        "column format; STEP within twice that of the first written increment (decided by the projection)",
        "truthfulness is demanded when the object was built in memory, its index was edited, or the file's STOP disagreed "
        "with its data; header edits never touch STRT/STOP/STEP (left to lasio)",
    ]
    return ctx.finish(RULE)
