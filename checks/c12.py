"""C12 - writer options change presentation only, never content (1.2 <-> 2.0 included)."""
import io
import random

from harness import core, roundtrip, tlc
from checks.c09 import corpus_texts
from checks import c11

import lasio
import numpy as np

RULE = ("design level: WriteLayout!OrdersAgree (TLC) -- reader and writer pick the same value/description order for every spelling, "
        "version and read case; spec->code: every unordered pair of writer configurations of the table (WriteInstances family C12, "
        "TLC: version 1.2/2.0, wrap, field widths, spacers, data width, header style; equal numeric precision) x every accepted input "
        "(example corpus, generated files incl. 1.2 layout, mixed-case STRT/NULL-like names, repeated NULL lines, duplicated and "
        "blank mnemonics); the content read from the two outputs (header items apart from VERS and WRAP, ~Other, curve data) is "
        "compared by digest in Trace_RoundTrip.  Distinct by (input, configuration pair).")

CFG = [
    {"version": 2.0, "wrap": False},
    {"version": 1.2, "wrap": False},
    {"version": 2.0, "wrap": True},
    {"version": 1.2, "wrap": True, "data_width": 40},
    {"version": 2.0, "wrap": False, "len_numeric_field": 20, "spacer": "   ", "lhs_spacer": ""},
    {"version": 1.2, "wrap": False, "mnemonics_header": True, "data_section_header": "~A"},
    {"version": 2.0, "wrap": True, "data_width": 200, "spacer": "\t"},
    {"version": 1.2, "wrap": False, "len_numeric_field": -1, "header_width": 40},
    # a comma-and-blank spacer (only for inputs that declare a delimiter: the written DLM item must then say COMMA)
    {"version": 2.0, "wrap": False, "spacer": ", "},
]
EXTRA = [
    "~V\nVERS. 1.2: v\nWRAP. NO:\n~W\nSTRT.M 1.0: first\nSTOP.M 3.0: last\nSTEP.M 1.0: inc\nNull. -999.25: nul\nComp. the company: ACME\nWell. the well: W-1\nELEV.M elevation: 123.5\nLIC. licence number: 12345\n"
    "~C\nDEPT.M: d\nGR.: g\n~A\n1 10\n2 -999.25\n3 30\n",
    "~V\nVERS. 2.0:\nWRAP. NO:\n~W\nSTRT.M 1:\nSTOP.M 3:\nSTEP.M 1:\nNULL. -999.25: first null\nNULL. -999.25: repeated null\nWELL. a well: its description\n"
    "UWI. 00123: unique id\nELEV.M 123.5: elevation\nLIC. 12345: licence number\n~C\nDEPT.M:\nGR.:\nGR.:\n~P\nstrt. 5: a parameter called like STRT\n~A\n1 10 11\n2 -999.25 21\n3 30 31\n",
] + ["~V\nVERS. 2.0:\nWRAP. NO:\n~W\nSTRT.M 1:\nSTOP.M 2:\nSTEP.M 1:\nNULL. -999.25:\n~C\nDEPT.M:\n" + "".join("C%d.:\n" % j for j in range(1, n)) +
     "~A\n" + "".join(" ".join("%d.5" % (r * 100 + j) for j in range(n)) + "\n" for r in (1, 2)) for n in (7, 14, 24, 28, 35)]


def read_digest(las, kw):
    s = io.StringIO()
    try:
        las.write(s, **kw)
    except Exception as e:
        return "WEXC", "write: %s: %s" % (type(e).__name__, str(e)[:80])
    try:
        back = lasio.read(s.getvalue())
    except Exception as e:              # lasio cannot read what it wrote: an observation
        return "EXC", "re-read: %s: %s" % (type(e).__name__, str(e)[:80])
    d, secs = roundtrip.content_digest(back, drop=("VERS", "WRAP", "DLM"))
    return d, secs


def run(ctx):
    rng = random.Random(ctx.seed)
    thorough = ctx.tier == "thorough"
    cfg = ("SPECIFICATION Spec\nCONSTANTS\n  MaxCurves = 2\n  MaxCap = 2\n  RowSet = {1}\n  UseDeclaredWhenWrapped = TRUE\n"
           "INVARIANT OrdersAgree\nCHECK_DEADLOCK FALSE\n")
    ctx.model_check("WriteLayout", cfg, label="WriteLayout: OrdersAgree", workers=2)
    cfg = ("SPECIFICATION Spec\nCONSTANTS\n  Family = \"C12\"\n  MaxCurves = 1\n  NPres = %d\n  NItems = 1\n  MaxList = 0\n  TallRows = {}\n  Emit = TRUE\n"
           "CONSTRAINT EmitInst\nCHECK_DEADLOCK FALSE\n" % len(CFG))
    r = ctx.model_check("WriteInstances", cfg, label="WriteInstances family C12 (configuration pairs)", workers=4)
    pairs = sorted(set((p["c1"], p["c2"]) for p in r.printed_json() if p["c1"] != p["c2"]))
    ctx.extra["configuration_pairs"] = len(pairs)
    sources = [("gen%d" % i, t) for i, t in enumerate(c11.GEN)] + [("extra%d" % i, t) for i, t in enumerate(EXTRA)]
    corpus = list(corpus_texts())
    if not thorough:
        # every fourth file, and always the files with a declared delimiter or quoted data values
        corpus = [x for i, x in enumerate(corpus) if i % 4 == 0 or "DLM" in x[1][:600].upper() or '"' in x[1]]
    sources += [(fn.replace(core.REPO, ""), t) for fn, t in corpus]
    events, meta = [], []
    skipped = unwritable = 0
    for name, text in sources:
        for case in (("upper", "preserve", "lower") if (thorough or name.startswith(("gen", "extra"))) else (rng.choice(["upper", "preserve", "lower"]),)):
            digs = {}
            ok = True
            for k in range(len(CFG)):
                try:
                    las = lasio.read(text, mnemonic_case=case)
                except Exception:
                    ok = False
                    break
                if "," in CFG[k].get("spacer", "") and ("DLM" not in text[:600].upper()
                                                         or any(np.asarray(c.data).dtype.kind not in "fiu" for c in las.curves)):
                    # (text values under a comma delimiter keep padding and quotes: recorded finding D34)
                    digs[k + 1] = ("NA", "")
                    continue
                digs[k + 1] = read_digest(las, CFG[k])
            if not ok or all(d[0] in ("WEXC", "NA") for d in digs.values()):
                skipped += 1
                continue
            use = pairs if thorough else rng.sample(pairs, 10)
            if not thorough and "DLM" in text[:600].upper():
                use = use + [pr for pr in pairs if len(CFG) in pr][:3]          # the comma-spacer configuration against three others
            for a, b in use:
                da, db = digs[a], digs[b]
                if "NA" in (da[0], db[0]):
                    continue
                if da[0] == "WEXC" and db[0] == "WEXC":
                    unwritable += 1         # this input cannot be written with either of the two configurations
                    continue
                # written by one configuration and refused by the other: the outcome depends on how it was written
                da = ("EXC", da[1]) if da[0] == "WEXC" else da
                db = ("EXC", db[1]) if db[0] == "WEXC" else db
                diff = None
                if da[0] != db[0] and da[0] != "EXC" and db[0] != "EXC":
                    diff = str(roundtrip.diff_items(da[1], db[1])[:3]) or "curve data differ"
                elif da[0] != db[0]:
                    diff = str(da[1] if da[0] == "EXC" else db[1])
                events.append({"op": "pair", "prop": "C12", "d1": da[0], "d2": db[0]})
                meta.append({"input": name, "case": case, "cfg1": {k: str(v) for k, v in CFG[a - 1].items()},
                             "cfg2": {k: str(v) for k, v in CFG[b - 1].items()}, "difference": diff,
                             "text": text if len(text) < 3000 else None})
                ctx.evaluations += 1
                ctx.case([name, case, a, b])
    ctx.extra["skipped_unreadable_or_unwritable"] = skipped
    ctx.extra["pairs_skipped_neither_configuration_can_write"] = unwritable
    ctx.exhaustive = thorough
    fails, _ = ctx.validate("Trace_RoundTrip", {"traces": [[e] for e in events]})
    for tid, l, clause in fails:
        m = meta[tid]
        ctx.report(clause, "input=%s case=%s cfg1=%s cfg2=%s difference=%s" % (m["input"], m["case"], m["cfg1"], m["cfg2"], m["difference"]),
                   {"meta": m, "event": events[tid]})
    ctx.sample({"pair": meta[0]})
    ctx.assumptions += ["both configurations print numbers with the same (default) format; VERS and WRAP items are not compared, nor is "
                        "DLM, which records the spacer option the way WRAP records wrap= (since repair D25)",
                        "inputs lasio cannot read or write with any configuration are skipped (counted in the evidence)",
                        "generated inputs keep ~Well values free of ':' (the 1.2 layout cannot carry them, see C03's conformance clause) and "
                        "date-like digit-hyphen-digit text out of wrapped output (lasio's hyphen heuristic needs a hyphen on every line)"]
    return ctx.finish(RULE)
