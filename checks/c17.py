"""C17 - pickle and deepcopy reproduce a LASFile exactly, duplicates included."""
import random

import numpy as np

from harness import copying, core, section, tlc

import lasio
from lasio.las_items import CurveItem, HeaderItem, SectionItems

RULE = ("spec->code: every reachable state of the SectionAlgo model (sections with duplicated / blank / case-variant / "
        "stale-suffix mnemonics) is built on a real LASFile through its shortest history in ~Parameter and in ~Curves, then "
        "copied with each of pickle protocols 0..5 and copy.deepcopy as a LASFile, as a section and item by item; the copy is "
        "mutated and both are re-projected; code->spec: the example corpus and generated files with text and float curves "
        "read with each mnemonic_case.  Every trace is validated by Trace_Copy.  Distinct by (abstract section state, "
        "section kind, copy method, target).")


def run(ctx):
    rng = random.Random(ctx.seed)
    thorough = ctx.tier == "thorough"
    maxlen = 3
    names, keys = ["A", "a", "", "A:1"], ["A", "a", "A:1", "A:2", "UNKNOWN", "Z"]
    if not thorough:
        names, keys = ["A", "", "A:1"], ["A", "A:1", "A:2", "Z"]
    edges, r = section.edges_from_tlc(ctx, names, keys, maxlen)
    # design level: the algorithmic copy functions keep the session names on every reachable section
    cfg = ("SPECIFICATION Spec\nCONSTANTS\n  Names = {%s}\n  KeyPool = {%s}\n  MaxLen = %d\n  MaxDepth = 0\n  Emit = FALSE\n"
           "ACTION_CONSTRAINT EmitEdge\nINVARIANT CopyKeepsNames\nVIEW View\nCHECK_DEADLOCK FALSE\n"
           % (", ".join('"%s"' % n for n in names), ", ".join('"%s"' % k for k in keys), maxlen))
    ctx.model_check("SectionAlgo", cfg, label="CopyKeepsNames on all reachable sections", workers=8, timeout=1200)
    path = section.paths(edges)
    states = sorted(path, key=lambda s: (len(path[s]), repr(s)))
    limit = 3000 if thorough else 260
    if limit and len(states) > limit:
        pick = rng.sample(states, limit)
        # always keep the states with stale suffixes (a unique useful name carrying a suffix): the copy-by-append class
        stale = [s for s in states if any(o != sname and ":" in sname and
                                          sum(1 for (o2, _, _) in s[1] if o2 == o) == 1 for (o, sname, _) in s[1])][:80]
        states = sorted(set(pick) | set(stale), key=lambda s: (len(path[s]), repr(s)))
    ctx.exhaustive = limit is None
    ctx.extra["model_states_used"] = len(states)
    traces, meta = [], []

    def add(build, how, target, kinds, m):
        traces.append(copying.trace_for(build, how, target, kinds))
        meta.append(dict(m, how=how, target=target))
        ctx.evaluations += 1
        ctx.case([m, how, target])

    for st in states:
        xf, items = st
        for kind in ("header", "curve"):
            def build(kind=kind, st=st):
                las = lasio.LASFile()
                sec = las.curves if kind == "curve" else las.params
                sec.mnemonic_transforms = st[0]
                real = section.Real(st[0], kind, section=sec)
                for e in path[st]:
                    real.apply(e)
                return las, None
            hows = copying.HOWS if thorough else [rng.choice(copying.HOWS[:6]), "deepcopy"]
            for how in hows:
                m = {"state": [list(x) for x in items], "xf": xf, "kind": kind, "path": path[st]}
                add(lambda b=build: (b()[0], lambda las: las), how, "las", ["field", "array", "append", "rename"], m)
                add(lambda b=build, k=kind: (b()[0], lambda las: las.curves if k == "curve" else las.params), how, "section",
                    ["field", "append", "rename"], m)
                if items:
                    ix = rng.randrange(len(items))
                    add(lambda b=build, k=kind, ix=ix: (b()[0], lambda las: list.__getitem__(
                        las.curves if k == "curve" else las.params, ix)), how, "item", ["field", "rename"], m)
    # code -> spec: corpus and generated files
    files = copying.corpus()
    if not thorough:
        files = files[::4]
    for fn in files:
        for case in (("upper",) if not thorough else ("upper", "preserve", "lower")):
            def build(fn=fn, case=case, edit=None):
                las = lasio.read(fn, mnemonic_case=case)
                d = las.curves[0].data if len(las.curves) else None
                if edit and d is not None and len(d) >= 3 and d.dtype.kind == "f":
                    # the object is copied AFTER its index was edited in memory (the last sample still equals the header STOP)
                    if edit == "first":
                        d[0] = d[0] - (d[1] - d[0]) * 0.5
                    else:
                        for c in list.__iter__(las.curves):
                            c.data = c.data[1:]
                return las, None
            try:
                build()
            except Exception:
                continue
            for how in (copying.HOWS if thorough else [rng.choice(copying.HOWS[:6]), "deepcopy"]):
                add(lambda b=build: (b()[0], lambda las: las), how, "las", ["field", "array"],
                    {"file": fn.replace(core.REPO, ""), "case": case})
                for edit in ("first", "trim"):
                    add(lambda b=build, e=edit: (b(edit=e)[0], lambda las: las), how, "las", ["field", "array"],
                        {"file": fn.replace(core.REPO, ""), "case": case, "index_edited_before_copy": edit})
    for i in range(300 if thorough else 40):
        seedtxt = rng.random()

        def build(i=i, s=seedtxt):
            r2 = random.Random(s)
            n = r2.randint(1, 4)
            mn = [r2.choice(["DEPT", "GR", "GR", "", "gr", "TXT"]) for _ in range(n)]
            rows = r2.randint(1, 4)
            lines = ["~V", "VERS. 2.0:", "WRAP. NO:", "~W", "NULL. -999.25:", "WELL. w%d:" % i, "STRT.M 1:", "~P",
                     "P1. 1:", "P1. 2:", ". 3:", "~C"] + ["%s.u :" % m for m in mn] + ["~A"]
            for rr in range(rows):
                lines.append(" ".join(("t%d" % rr if m == "TXT" else str(rr + j * 0.5)) for j, m in enumerate(mn)))
            kw = {}
            if r2.random() < 0.4 and "TXT" not in mn:
                kw["dtypes"] = [r2.choice([int, float, str]) for _ in mn]
            las = lasio.read("\n".join(lines) + "\n", mnemonic_case=r2.choice(["upper", "lower", "preserve"]), **kw)
            d0 = las.curves[0].data
            if r2.random() < 0.5 and len(d0) >= 2 and d0.dtype.kind == "f":
                d0[0] -= 0.25          # the index is edited in memory before the copy is taken
            if r2.random() < 0.5:       # arrays of other dtypes assigned through the public API
                las.append_curve("INTS", np.arange(rows, dtype=r2.choice([np.int64, np.int32, np.float32])))
            if r2.random() < 0.3:
                las["FLAGS"] = np.array([bool(k % 2) for k in range(rows)])
            if r2.random() < 0.4:       # object-dtype arrays (what set_data / a mixed DataFrame leaves behind)
                las.append_curve("OBJ", np.array([k + 0.5 for k in range(rows)], dtype=object))
            if r2.random() < 0.3:
                las.append_curve("CODE", np.array(["00%d" % (12 + k) for k in range(rows)], dtype=object))
            if r2.random() < 0.5:       # ... and arrays assigned to an existing curve after its construction
                las.append_curve("LATE", np.zeros(rows))
                las.curves[-1].data = np.array(["00%d" % (12 + k) for k in range(rows)], dtype=object) if r2.random() < 0.5 \
                    else np.array([k + 0.25 for k in range(rows)], dtype=object)
                las.update_curve(mnemonic="LATE", unit="late")
            return las, None
        how = rng.choice(copying.HOWS)
        add(lambda b=build: (b()[0], lambda las: las), how, "las", ["field", "array", "append"], {"generated": i})
        add(lambda b=build: (b()[0], lambda las: las.curves), "deepcopy", "section", ["field", "array"], {"generated": i})
    fails, _ = ctx.validate("Trace_Copy", {"traces": traces})
    for tid, l, clause in fails:
        ev = traces[tid][l]
        detail = "%s of %s via %s: %s" % (ev["op"], meta[tid]["target"], meta[tid]["how"],
                                          {k: v for k, v in meta[tid].items() if k not in ("path",)})
        ctx.report(clause, detail[:400], {"meta": meta[tid], "trace": traces[tid], "event": l})
    ctx.require_ops("Trace_Copy", ["copy", "mutate"])
    ctx.sample({"meta": meta[0], "copy_event": {k: traces[0][0][k] for k in ("how", "target", "orig", "copy", "worig", "wcopy")}})
    ctx.sample({"meta": meta[-1]})
    ctx.assumptions += [
        "array equality = dtype + shape + bytes; header values compared with their Python type; write() text by SHA-1",
        "objects whose write() raises (text curves) must raise the same exception type on the copy and are otherwise "
        "compared by projection only",
    ]
    return ctx.finish(RULE)
