"""C04 - header line grammar: parsing inverts formatting under any padding."""
import itertools
import random
import re

from harness import core, tlc

import lasio
from lasio.reader import read_header_line

RULE = ("design level: HeaderLineCheck (TLC) -- Parse(Format(f, pads), sec) = Expected(f) for every field tuple of the abstract "
        "pools x every padding tuple x six section kinds (millions of lines): the documented grammar inverts formatting and is "
        "unambiguous on conformant fields; spec->code: the product of concrete field pools (mnemonics with inner blanks and "
        "non-ASCII letters; units empty / with interior '.' or ':' / bracketed / non-ASCII; textual, numeric, quoted values; clock "
        "times HH:MM[:SS] for all 24 hours with and without dates; descriptions with and without colons) x seeded paddings over "
        "{none, blank, blanks, tab, mixed} at six positions x six section kinds, plus the special forms NAME : VALUE and '1000 lbf', "
        "passed to lasio.reader.read_header_line; TLC evaluates HeaderLine!Parse on every logged line (Trace_HeaderLine).  "
        "Distinct by line text x section.")

MN = ["A", "STRT", "MN EM", "a1", "é", "X-1", "Q_", "Ωm"]
UN = ["", "m", "us/ft", "m.s", "hh:mm", "%", "Ω", "1/m", "k.g.s", "a:b", "[m]", "(ft)", "g/cm3", "°C"]
VA = ["", "v", "12", "03", "run 21", "-7.5", "two words", "[x]", "(y)", "he \"q\"", "a.b", "1.5", "x/y", "hh", "at HH", "it's",
      "1,5", "1e5", "№ 5", "21", "23", "1500..2500", "Gel Chem.."]
DE = ["", "d", "two words", "[b] (p)", "d.e", "1 first", "'q'", "déjà vu"]
DC = ["Time Logger: At Bottom", "a: b: c", "x : y"]
PADS = ["", " ", "   ", "\t", " \t "]
SECS = ["Version", "Well", "Curves", "Parameter", "~Custom", None]


def times():
    out = []
    for hh in range(24):
        for mm in (0, 5, 30, 59):
            out.append("%02d:%02d" % (hh, mm))
        out.append("%02d:%02d:%02d" % (hh, (hh * 7) % 60, (hh * 13) % 60))
    out += ["23:15 23-JAN-2001", "01-JAN-2001 07:45", "2001/01/23 13:45:10", "9:05", "00:00", "at 13:45", "13:45 local"]
    return out


def codes(s):
    return [ord(c) for c in s]


def run(ctx):
    rng = random.Random(ctx.seed)
    thorough = ctx.tier == "thorough"
    cfg = ("SPECIFICATION Spec\nCONSTANTS\n  Big = FALSE\nINVARIANT Inverts\n%sCHECK_DEADLOCK FALSE\n"
           % ("INVARIANT AlgoRefinesIntent\n" if thorough else ""))
    ctx.model_check("HeaderLineCheck", cfg, label="HeaderLine: Parse inverts Format on the conformant pools"
                    + ("; HeaderLineAlgo (regex cascade) refines it except on class D26" if thorough else ""), workers=16, timeout=3600)
    events = []
    seen = set()

    def check(m, u, v, d, p, sec, special=None):
        if special is not None:
            line, f = special
        else:
            line = p[0] + m + p[1] + "." + u + p[2] + v + p[3] + ":" + p[4] + d + p[5]
            f = [m, u, v, d]
        key = (line, sec)
        if key in seen:
            return
        seen.add(key)
        ev = {"op": "line", "line": codes(line), "sec": "Parameter" if sec == "Parameter" else ("Curves" if sec == "Curves" else "Other"),
              "f": [codes(x) for x in f], "exc": "", "obs": [[], [], [], []]}
        try:
            r = read_header_line(line, section_name=sec)
            ev["obs"] = [codes(r["name"]), codes(r["unit"]), codes(r["value"]), codes(r["descr"])]
        except Exception as e:
            ev["exc"] = type(e).__name__
        events.append(ev)
        ctx.evaluations += 1

    reps = 3 if thorough else 1
    tvals = times()
    for sec in SECS:
        for m, u, v, d in itertools.product(MN, UN, VA, DE):
            if not thorough and rng.random() < 0.6:
                continue
            for _ in range(reps):
                p = [rng.choice(PADS) for _ in range(6)]
                if v and not p[2]:
                    p[2] = " "
                if re.fullmatch(r"\d+", u):
                    continue
                if sec == "Curves" and (".." in (m + p[1] + "." + u) or ".." in v):
                    continue
                check(m, u, v, d, p, sec)
        for v in tvals:
            for u in ("", "hh:mm", "m", "a:b"):
                p = [rng.choice(PADS) for _ in range(6)]
                if not p[2]:
                    p[2] = " "
                if sec == "Parameter":
                    for d in DE + DC:
                        p2 = list(p)
                        if ":" in d:
                            p2[3] = rng.choice([" ", "   ", "\t "])
                            p2[4] = rng.choice([" ", "   ", " \t"])
                        check("TIML", u, v, d, p2, sec)
                else:
                    # outside ~Parameter the last colon separates: a clock time in the value is fine, the description has no colon
                    check("TIML", u, v, "descr", p, sec)
        # the documented special forms
        for name, val in (("NAME", "VALUE"), ("LOC", "12-34-56W5M"), ("A B", "x y"), ("é", "1.5"), ("REMARK", "Depth ref: KB"),
                          ("TIME", "13:45:00"), ("R", "a:b:c"), ("NOTE", "see 12:30 log: run 2"),
                          # a period in the value, followed later by a colon (dotted dates, decimals, versions + clock times)
                          ("RUN DATE", "13.01.2001 14:30"), ("START", "1.5 at 12:00"), ("REV", "v1.2: final"), ("X", "a.b:c")):
            for _ in range(4):
                p = [rng.choice(PADS) for _ in range(4)]
                line = p[0] + name + p[1] + ":" + p[2] + val + p[3]
                if "." in name:
                    continue
                check(None, None, None, None, None, sec, special=(line, [name, "", val, ""])) if "." not in val or True else None
        for unit, val, d in (("1000 lbf", "12", "force"), ("10 kN", "", "x"), ("5 m", "a b", ""), ("1000 кгс", "7", "d")):
            for _ in range(4):
                p = [rng.choice(PADS) for _ in range(6)]
                if val and not p[2]:
                    p[2] = " "
                check("FRC", unit, val, d, p, sec)
    ctx.exhaustive = thorough
    traces = [events[i:i + 2000] for i in range(0, len(events), 2000)]
    fails, _ = ctx.validate("Trace_HeaderLine", {"traces": traces}, timeout=3000)
    bad_harness = 0
    for tid, l, clause in fails:
        ev = traces[tid][l]
        line = "".join(chr(c) for c in ev["line"])
        if clause.startswith("Harness."):
            bad_harness += 1
            continue
        if clause.startswith("Drift."):
            # the algorithm layer (regex cascade as position arithmetic) disagrees with the implementation: model drift, no verdict
            ctx.drift.append({"line": line, "section": ev["sec"], "observed": ["".join(chr(c) for c in x) for x in ev["obs"]]})
            continue
        obs = ["".join(chr(c) for c in x) for x in ev["obs"]]
        ctx.report(clause, "line %r in section %s parsed as %r (exception %r)" % (line, ev["sec"], obs, ev["exc"]),
                   {"line": line, "section": ev["sec"], "observed": obs, "fields": ["".join(chr(c) for c in x) for x in ev["f"]]})
        ctx.case([line, ev["sec"]])
    if bad_harness:
        bad = [(t, l) for t, l, c in fails if c.startswith("Harness.")][:3]
        raise tlc.MachineryError("generator laid out %d non-conformant lines, e.g. %r" % (
            bad_harness, ["".join(chr(c) for c in traces[t][l]["line"]) for t, l in bad]))
    for ev in events:
        ctx.distinct.add(hash((tuple(ev["line"]), ev["sec"])))
    ctx.extra["lines"] = len(events)
    ctx.sample({"line": "".join(chr(c) for c in events[len(events) // 2]["line"]), "section": events[len(events) // 2]["sec"],
                "observed": ["".join(chr(c) for c in x) for x in events[len(events) // 2]["obs"]]})
    ctx.sample({"line": "".join(chr(c) for c in events[-1]["line"]), "observed": ["".join(chr(c) for c in x) for x in events[-1]["obs"]]})
    ctx.assumptions += [
        "mnemonic non-empty; a purely numeric unit is not generated (neither the plain nor the documented '1000 lbf' form)",
        "in ~Parameter a description containing colons is set off by ' : ' (a blank on both sides of the separating colon); "
        "values containing colons are clock times and are generated for ~Parameter only",
        "~Curves lines with '..' are the documented 'mnemonic ending in a period' form and are not generated here",
    ]
    return ctx.finish(RULE)
