"""C10 - result independent of input channel and encoding; reads are pure."""
import itertools
import random
import shutil

from harness import channels, core, tlc

RULE = ("spec->code: every history of reads / mutations of earlier results / writes that the ChannelsAlgo model admits within "
        "MaxOps (all paths of its state graph, TLC) is executed on real lasio; the (channel, encoding, newline) parameters of "
        "the reads cycle through the whole product {str path, Path, open file, StringIO, string} x {utf-8-sig autodetected, "
        "utf-8, utf-16, latin-1, cp1252} x {LF, CRLF, CR}; every event logs the digest of the full projection of every live "
        "result; validated by Trace_Channels.  Distinct by (history, parameter tuple).")


def run(ctx):
    rng = random.Random(ctx.seed)
    thorough = ctx.tier == "thorough"
    contents = ["full", "nowell", "nel", "indent"] + (["cyr"] if thorough else [])
    optids = ["default", "preserve"] if not thorough else ["default", "preserve", "normal"]
    maxops = 4
    base = ("SPECIFICATION Spec\nCONSTANTS\n  Contents = {%s}\n  HasWell <- HW\n  Channels = {\"str\", \"Path\", \"file\", \"StringIO\", \"string\"}\n"
            "  Encodings = {\"utf-8-sig\", \"utf-8\", \"utf-16\", \"latin-1\", \"cp1252\"}\n  Newlines = {\"LF\", \"CRLF\", \"CR\"}\n"
            "  OptIds = {%s}\n  MaxOps = %d\n  SharedDefaults = %s\n  Emit = %s\nACTION_CONSTRAINT EmitEdge\n"
            "PROPERTY ReadIsFunction\nVIEW View\nCHECK_DEADLOCK FALSE\n")
    q = lambda xs: ", ".join('"%s"' % x for x in xs)
    ctx.model_check("ChannelsAlgo", base % (q(contents), q(optids), maxops, "FALSE", "FALSE"),
                    label="ChannelsAlgo ReadIsFunction (fresh defaults per object)", workers=8)
    r = tlc.run("ChannelsAlgo", base % (q(contents[:2]), q(optids[:1]), 3, "TRUE", "FALSE"), workers=2, allow_violation=True)
    ctx.extra["model_sensitive_to_shared_defaults"] = (r.violation == "ReadIsFunction")
    if r.violation != "ReadIsFunction":
        raise tlc.MachineryError("ChannelsAlgo with shared defaults should violate ReadIsFunction")
    # the abstract histories come from a run with a single representative parameter tuple (the graph shape is the same)
    small = (base % (q(contents), q(optids), maxops, "FALSE", "TRUE")).replace(
        '{"str", "Path", "file", "StringIO", "string"}', '{"str"}').replace(
        '{"utf-8-sig", "utf-8", "utf-16", "latin-1", "cp1252"}', '{"utf-8"}').replace('{"LF", "CRLF", "CR"}', '{"LF"}')
    r = ctx.model_check("ChannelsAlgo", small, label="ChannelsAlgo history shapes", workers=4)
    paths = channels.abstract_paths(r.printed_json())
    ctx.extra["model_histories"] = len(paths)
    limit = None if thorough else 700
    if limit and len(paths) > limit:
        paths = rng.sample(paths, limit)
    ctx.exhaustive = limit is None
    product = list(itertools.product(["str", "Path", "file", "StringIO", "string"],
                                     ["utf-8-sig", "utf-8", "utf-16", "latin-1", "cp1252"], ["LF", "CRLF", "CR"]))
    rng.shuffle(product)
    cyc = itertools.cycle(product)
    work = tlc.scratch("c10")
    traces, meta = [], []
    used = set()
    for p in paths:
        w = channels.World(work)
        tr, hist = [], []
        for (op, c, opt, k) in p:
            if op == "read":
                ch, enc, nl = next(cyc)
                used.add((ch, enc, nl))
                e = {"op": "read", "c": c, "opt": opt, "ch": ch, "enc": enc, "nl": nl}
                tr.append(w.read(e))
            elif op == "mutate":
                e = {"op": "mutate", "k": k}
                tr.append(w.mutate(k))
            else:
                e = {"op": "write", "k": k}
                tr.append(w.write(k))
            hist.append(e)
        traces.append(tr)
        meta.append({"history": hist})
        ctx.evaluations += len(hist)
        ctx.case(hist)
    shutil.rmtree(work, ignore_errors=True)
    ctx.extra["parameter_tuples_used"] = len(used)
    # one more family: for each content and option set, ALL parameter tuples in one trace (single-valuedness across the product)
    work = tlc.scratch("c10b")
    for c in sorted(channels.CONTENTS):
        for opt in channels.OPTS:
            w = channels.World(work)
            tr, hist = [], []
            for (ch, enc, nl) in product:
                e = {"op": "read", "c": c, "opt": opt, "ch": ch, "enc": enc, "nl": nl}
                tr.append(w.read(e))
                w.objs = w.objs[-1:]          # keep the heap small
                tr[-1]["live"] = tr[-1]["live"][-1:]
                hist.append(e)
                ctx.evaluations += 1
            # re-shape: the frame clause wants live to grow by one each read, so log these as independent single-read traces
            first = tr[0]
            for ev, e in zip(tr, hist):
                traces.append([dict(first, live=first["live"][-1:]), dict(ev, live=[first["live"][-1], ev["live"][-1]])])
                meta.append({"history": [hist[0], e]})
                ctx.case([c, opt, e["ch"], e["enc"], e["nl"]])
    shutil.rmtree(work, ignore_errors=True)
    ref = channels.pristine_digests()
    ctx.extra["pristine_reference_digests"] = ref
    # interference between reads: for every ordered pair of (content, options): read A ; read B ; read A again
    work = tlc.scratch("c10c")
    keys = [(c, o) for c in sorted(channels.CONTENTS) for o in (sorted(channels.OPTS) if thorough else ["default", "preserve"])]
    for (c1, o1) in keys:
        for (c2, o2) in keys:
            if (c1, o1) == (c2, o2):
                continue
            w = channels.World(work)
            hist = [{"op": "read", "c": c1, "opt": o1, "ch": "StringIO", "enc": "utf-8", "nl": "LF"},
                    {"op": "read", "c": c2, "opt": o2, "ch": rng.choice(["str", "string", "Path"]), "enc": "utf-8", "nl": "LF"},
                    {"op": "read", "c": c1, "opt": o1, "ch": rng.choice(["str", "file", "StringIO"]), "enc": "utf-8", "nl": "CRLF"}]
            traces.append([w.read(e) for e in hist])
            meta.append({"history": hist})
            ctx.evaluations += 3
            ctx.case(["interference", c1, o1, c2, o2])
    # a UTF-8 file with BOM read with an explicit encoding= as well
    for c in ("full", "nowell", "nel"):
        for explicit in ("utf-8", "utf-8-sig"):
            for ch in ("str", "Path"):
                w = channels.World(work)
                e = {"op": "read", "c": c, "opt": "default", "ch": ch, "enc": "utf-8-sig", "nl": "LF", "explicit_bom": explicit}
                traces.append([w.read(e)])
                meta.append({"history": [e]})
                ctx.evaluations += 1
                ctx.case(["bom-explicit", c, explicit, ch])
    shutil.rmtree(work, ignore_errors=True)
    fails, _ = ctx.validate("Trace_Channels", {"ref": ref, "traces": traces})
    for tid, l, clause in fails:
        ev = traces[tid][l]
        ctx.report(clause, "event %d %s in %s" % (l, {k: v for k, v in ev.items() if k != "live"}, meta[tid]["history"]),
                   {"meta": meta[tid], "trace": traces[tid], "event": l})
    ctx.require_ops("Trace_Channels", ["read", "mutate", "write"])
    ctx.sample({"history": meta[0]["history"], "trace": traces[0]})
    ctx.sample({"history": meta[-1]["history"]})
    ctx.assumptions += [
        "the digest covers every section item (session and original mnemonic, unit, typed value, description), ~Other, "
        "arrays with dtype, index unit and every other attribute except `encoding` (which legitimately names the codec)",
        "CR-only line ends are exercised for files only; string/StringIO channels use LF and CRLF",
        "codec fidelity of Python's codecs is trusted; any loss shows up as a digest difference against the string channel",
    ]
    return ctx.finish(RULE)
