"""EXT - behaviour beyond the twenty listed properties (Extended.tla): stack_curves, named null policies, index_unit=,
dtypes=.  Not registered in MANIFEST.json (no property id); deviations are reported in evidence/EXT.json only."""
import os
import random

import numpy as np

from harness import core, tlc

import lasio

RULE = ("every instance of Extended.tla (TLC: curve-name permutations x stub/list arguments x sort flag; rows of sentinel values x "
        "null policies x NULL values; index_unit= arguments; dtypes= specifications) executed on real lasio and compared with the "
        "expectation TLC computed (Trace_Extended).")


SUFFIX = {"plain": "", "word": "xyz section", "under": "xyz_Information", "logdef": "og_Definition", "logpar": "og_Parameter",
          "logdata": "og_Data | Log_Definition", "x_data": "ore_Data[1] | Core_Definition", "x_par": "ore_Parameter",
          "x_def": "ore_Definition", "x_DATA": "ORE_DATA"}


def name_of(n):
    return n[0] + (str(n[1]) if n[1] else "")


def run(ctx):
    rng = random.Random(ctx.seed)
    cfg = "SPECIFICATION Spec\nCONSTANTS\n  Emit = TRUE\nCONSTRAINT EmitInst\nINVARIANT StackSane\nCHECK_DEADLOCK FALSE\n"
    r = ctx.model_check("Extended", cfg, label="Extended: instance spaces and StackSane", workers=8)
    insts = r.printed_json()
    insts.sort(key=lambda i: repr(sorted(i.items())))
    if ctx.tier != "thorough":
        stack = [i for i in insts if i["kind"] == "stack"]
        nulls = [i for i in insts if i["kind"] == "null"]
        udet = [i for i in insts if i["kind"] == "unitdet"]
        rest = [i for i in insts if i["kind"] not in ("stack", "null", "unitdet")]          # (unit, dtypes, depth, sss, csv and all 480 routing instances)
        insts = rng.sample(stack, 1500) + rng.sample(nulls, 1500) + rng.sample(udet, 2000) + rest
    ctx.exhaustive = ctx.tier == "thorough"
    events = []
    work = tlc.scratch("ext")
    for inst in insts:
        k = inst["kind"]
        obs = None
        try:
            if k == "stack":
                las = lasio.LASFile()
                las.append_curve("DEPT", np.array([1.0, 2.0]))
                for j, n in enumerate(inst["keys"]):
                    las.append_curve(name_of(n), np.array([float(j + 1), float(j + 1) + 0.5]))
                a = inst["arg"]
                arg = {"list1": ["CBP10", "CBP2"], "list2": ["CBX1", "CBP1", "GR"]}.get(a, a)
                try:
                    out = las.stack_curves(arg, sort_curves=bool(inst["sort"]))
                    obs = [int(out[0, c]) for c in range(out.shape[1])]
                except KeyError:
                    obs = [-1]
                if a == "DEPT" and obs != [-1]:
                    obs = [0 if x == 1 and False else x for x in obs]
            elif k == "null":
                row = inst["row"]
                text = ("~V\nVERS. 2.0:\nWRAP. NO:\n~W\nNULL. %s:\n~C\nA.:\nB.:\nC.:\n~A\n%s\n" % (inst["nullv"], " ".join(row)))
                las = lasio.read(text, null_policy=inst["policy"])
                obs = [bool(np.isnan(c.data[0])) for c in las.curves]
            elif k == "unit":
                text = "~V\nVERS. 2.0:\nWRAP. NO:\n~W\nSTRT.FT 1:\nNULL. -999.25:\n~C\nDEPT.FT:\n~A\n1\n2\n"
                las = lasio.read(text, index_unit=None if inst["arg"] == "none" else inst["arg"])
                obs = "detect" if inst["arg"] == "none" and las.index_unit == "FT" else str(las.index_unit)
            elif k == "route":
                t = inst["title"]
                title = "~" + (t["letter"].lower() if t["lower"] else t["letter"]) + SUFFIX[t["suffix"]]
                isdata = inst["expect"][0] == "Data"
                body = "1 2\n3 4\n" if isdata else "XA. 7 : d\n"
                text = "~Version\nVERS. %s : v\nWRAP. NO : w\n%s\n%s" % (inst["vers"], title, body)
                las = lasio.read(text)
                obs = ["?", "?"]
                if isdata and len(las.curves) == 2 and [list(c.data) for c in las.curves] == [[1.0, 3.0], [2.0, 4.0]]:
                    obs = ["Data", "data"]
                else:
                    for key, sec in las.sections.items():
                        name = key if key in ("Version", "Well", "Curves", "Parameter", "Other") else ("own" if key == title[1:] else "?" + key)
                        if isinstance(sec, str):
                            if sec.strip() == body.strip():
                                obs = ["Other", name]
                        elif any(it.original_mnemonic == "XA" for it in list.__iter__(sec)):
                            obs = ["Items", name]
            elif k == "enc":
                first = {"ascii": b"~Version", "late": b"~Version", "verylate": b"~Version", "first1252": b"~Version \xe9",
                         "first81": b"~Version \x81"}[inst["content"]]
                if inst["bom"]:
                    first = {"ascii": b"~Version", "late": b"~Version", "verylate": b"~Version", "first1252": "~Version \u00e9".encode("utf-8"),
                             "first81": "~Version \u0081".encode("utf-8")}[inst["content"]]
                later = b"WELL. w : w\n"
                if inst["content"] in ("late", "verylate") and not inst["bom"]:
                    later = (b"" if inst["content"] == "late" else b"".join(b"P%04d. 1 : filler\n" % i for i in range(600))) + b"WELL. caf\xe9 : w\n"
                raw = (b"\xef\xbb\xbf" if inst["bom"] else b"") + first + b"\nVERS. 2.0 : v\nWRAP. NO : w\n~Well\n" + later + b"~A\n1 2\n"
                path = os.path.join(work, "enc.las")
                with open(path, "wb") as f:
                    f.write(raw)
                kw = {"autodetect_encoding": False}
                if inst["explicit"] != "none":
                    kw["encoding"] = inst["explicit"]
                las = lasio.read(path, **kw)
                obs = str(las.encoding)
            elif k == "unitdet":
                u = inst["units"]
                text = ("~V\nVERS. 2.0:\nWRAP. NO:\n~W\nSTRT.%s 1.0 : a\nSTOP.%s 2.0 : b\nSTEP.%s 1.0 : c\nNULL. -999.25:\n~C\nDEPT.%s : d\nGR.GAPI : g\n~A\n1 5\n2 6\n"
                        % tuple(u))
                las = lasio.read(text)
                got_units = [las.well["STRT"].unit, las.well["STOP"].unit, las.well["STEP"].unit, las.curves[0].unit]
                obs = str(las.index_unit) if got_units == list(u) else "UNITS-MISREAD:%r" % (got_units,)
            elif k == "depth":
                las = lasio.LASFile()
                idx = np.array([0.0, 1.5, 120.0, 1000.25, 3048.0])
                las.append_curve("DEPT", idx.copy())
                las.index_unit = None if inst["unit"] == "None" else inst["unit"]
                forms = {"index": idx, "index/0.3048": idx / 0.3048, "index*0.3048": idx * 0.3048, "(index/120)*0.3048": (idx / 120) * 0.3048,
                         "index/120": idx / 120}
                try:
                    out = las.depth_m if inst["want"] == "m" else las.depth_ft
                    hits = [name for name, arr in forms.items() if np.array_equal(np.asarray(out), arr)]
                    obs = hits[0] if len(hits) == 1 else "OTHER:%r" % (list(np.asarray(out)),)
                except lasio.exceptions.LASUnknownUnitError:
                    obs = "LASUnknownUnitError"
            elif k == "sss":
                las = lasio.LASFile()
                idx = {"nocurves": None, "len0": [], "len1": [7.5], "regular": [1.0, 1.5, 2.0, 2.5], "irregular": [1.0, 1.25, 2.0, 4.0]}[inst["index"]]
                if idx is not None:
                    las.append_curve("DEPT", np.array(idx, dtype=float))
                    las.append_curve("GR", np.arange(len(idx), dtype=float))
                for m in ("STRT", "STOP", "STEP"):
                    las.well[m].value = "untouched"
                kw = {}
                given = {"STRT": 111.5, "STOP": "222", "STEP": 0}
                for m, flag in (("STRT", inst["strt"]), ("STOP", inst["stop"]), ("STEP", inst["step"])):
                    if flag:
                        kw[m] = given[m]
                las.update_start_stop_step(**kw)
                obs = []
                for m in ("STRT", "STOP", "STEP"):
                    v = las.well[m].value
                    cands = {"None": None, "untouched": "untouched"}
                    if m in kw:
                        cands["arg"] = given[m]
                    if idx:
                        cands["fmt(index[0])"] = "%.5f" % idx[0]
                        cands["fmt(index[-1])"] = "%.5f" % idx[-1]
                    if idx and len(idx) > 1:
                        cands["fmt(index[1]-index[0])"] = "%.5f" % (idx[1] - idx[0])
                    want = inst["expect"][("STRT", "STOP", "STEP").index(m)]
                    hits = [t for t, c in cands.items() if type(c) is type(v) and c == v]
                    obs.append(want if want in hits else (hits[0] if hits else "OTHER:%r" % (v,)))
            elif k == "csv":
                las = lasio.LASFile()
                las.append_curve("DEPT", np.array([1.0, 2.0]), unit="m")
                las.append_curve("GR", np.array([5.0, 6.0]), unit="gAPI")
                las.append_curve("GR", np.array([7.0, 8.0]), unit="")
                args = {"true": True, "false": False, "empty": []}
                mn = args.get(inst["mn"], ["a", "b", "c"])
                un = args.get(inst["un"], ["x", "y", "z"])
                import io
                buf = io.StringIO()
                kw = {"mnemonics": mn, "units": un}
                if inst["loc"] != "none":
                    kw["units_loc"] = inst["loc"]
                else:
                    kw["units_loc"] = None
                las.to_csv(buf, **kw)
                lines = buf.getvalue().split("\n")
                assert lines[-1] == "" and lines[-3:-1] == ["1.0,5.0,7.0", "2.0,6.0,8.0"], lines
                mrow = {"true": ["DEPT", "GR", "GR"], "list": ["a", "b", "c"]}
                urow = {"true": ["m", "gAPI", ""], "list": ["x", "y", "z"]}
                names = {}
                for a, mr in mrow.items():
                    names[",".join(mr)] = a + "-mnemonics"
                    for b, ur in urow.items():
                        for lc in ("[]", "()"):
                            names[",".join(m + " " + lc[0] + u_ + lc[1] for m, u_ in zip(mr, ur))] = "%s-mnemonics %s %s-units" % (a, lc, b)
                for b, ur in urow.items():
                    names[",".join(ur)] = b + "-units"
                obs = [names.get(ln, "OTHER:" + ln) for ln in lines[:-3]]
            elif k == "igdata":
                rows = "".join("%d %d\n" % (i, i + 10) for i in range(inst["rows"]))
                text = "~V\nVERS. 2.0:\nWRAP. NO:\n~W\nNULL. -999.25:\n~C\nDEPT.M : d\nGR.GAPI : g\n~A\n" + rows
                las = lasio.read(text, ignore_data=bool(inst["flag"]))
                lens = set(len(c.data) for c in las.curves)
                obs = lens.pop() if len(lens) == 1 and [c.mnemonic for c in las.curves] == ["DEPT", "GR"] else "OTHER:%r" % ([c.mnemonic for c in las.curves],)
            elif k == "readpol":
                rowtext = {"plain": "1.5 2.5 3.5", "neg": "1.5 -2.5 3.5", "runon": "1.5 2.5-3.5", "runon3": "1.5-2.5-3.5", "cdec": "1,5 2,5 3,5",
                           "dots": "1.5 1.2.3"}
                rowvals = {"plain": [1.5, 2.5, 3.5], "neg": [1.5, -2.5, 3.5], "runon": [1.5, 2.5, -3.5], "runon3": [1.5, -2.5, -3.5],
                           "cdec": [1.5, 2.5, 3.5], "dots": [1.5, None, None]}
                pol = {"default": "default", "hyphen": ["run-on(-)"], "dots": ["run-on(.)", "comma-decimal-mark"], "none": ()}[inst["policy"]]
                text = "~V\nVERS. 2.0:\nWRAP. NO:\n~W\nNULL. -999.25:\n~C\nA.:\nB.:\nC.:\n~A\n" + "".join(rowtext[r] + "\n" for r in inst["rows"])
                try:
                    las = lasio.read(text, read_policy=pol, accept_regexp_sub_recommendations=bool(inst["accept"]),
                                     engine=("numpy", "normal")[len(events) % 2])
                    want = [[rowvals[r][c] for r in inst["rows"]] for c in range(3)]
                    got = [[None if (isinstance(x, float) and x != x) else x for x in c.data.tolist()] for c in las.curves]
                    obs = "numeric" if got == want and all(c.data.dtype.kind == "f" for c in las.curves) else "other"
                except Exception:
                    obs = "other"
            elif k == "dtypes":
                spec = inst["spec"]
                kinds = {"f": float, "i": int, "U": str}
                arg = "auto" if spec == ["auto"] else (False if spec == ["false"] else [kinds[x] for x in spec])
                text = "~V\nVERS. 2.0:\nWRAP. NO:\n~W\nNULL. -999.25:\n~C\nA.:\nB.:\nC.:\n~A\n1 2 3\n4 5 6\n"
                las = lasio.read(text, dtypes=arg)
                obs = [("f" if c.data.dtype.kind == "f" else "i" if c.data.dtype.kind in "iu" else "U") for c in las.curves]
        except Exception as e:
            obs = "EXC:%s" % type(e).__name__
        exp = inst["expect"]
        if k == "stack":
            # the model's indices are positions among the added curves (1-based); the observed cell value is j+1
            pass
        ev = {"op": "ext", "kind": k, "expect": exp if not isinstance(exp, str) else exp, "obs": obs,
              "inst": {kk: v for kk, v in inst.items() if kk != "expect"}}
        if isinstance(exp, list) and isinstance(obs, str):
            ev["obs"] = [obs]
        if isinstance(exp, str) and not isinstance(obs, str):
            ev["obs"] = str(obs)
        events.append(ev)
        ctx.evaluations += 1
        ctx.case(ev["inst"])
    slim = [[{k: v for k, v in e.items() if k != "inst"}] for e in events]
    fails, _ = ctx.validate("Trace_Extended", {"traces": slim})
    dev = {}
    for tid, l, clause in fails:
        dev.setdefault(clause, []).append({"inst": events[tid]["inst"], "expected": events[tid]["expect"], "observed": events[tid]["obs"]})
    ctx.extra["extended_deviations"] = {k: {"count": len(v), "examples": v[:3]} for k, v in dev.items()}
    ctx.sample(events[0])
    ctx.sample(events[-1])
    print("EXT: %d instances, deviations: %s" % (len(events), {k: len(v) for k, v in dev.items()} or "none"))
    return ctx.finish(RULE)
