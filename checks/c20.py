"""C20 - every file lasio opens is closed again, whatever fails and wherever."""
import io
import os
import pathlib
import random
import shutil

import numpy as np

from harness import core, handles, tlc

import lasio

RULE = ("spec->code: HandlesAlgo (TLC: a fault at every open and every operation of the modelled protocols) ; for the real code "
        "each call kind x input is first run cleanly to count its n low-level I/O operations (open/read/readline/seek/tell/"
        "write/iteration on every handle created through builtins.open / io.open), then re-run n times with an OSError injected "
        "at the k-th operation, plus every input-induced failure class; the open/io/fault/close/end events are validated by "
        "Trace_Handles.  Distinct by (call kind, input, fault position or failure class).")

GOOD = ("~V\nVERS. 2.0:\nWRAP. NO:\n~W\nSTRT.M 1:\nSTOP.M 2:\nSTEP.M 1:\nNULL. -999.25:\nWELL. caf\u00e9:\n~C\nDEPT.M:\nGR.:\n~P\nX. 1:\n"
        "~O\nnote\n~A\n1 10\n2 20\n")
INPUTS = {
    "good": GOOD,
    "wrapped": GOOD.replace("WRAP. NO", "WRAP. YES").replace("1 10\n2 20\n", "1\n10\n2\n20\n"),
    "nosections": "just some text\nwithout any section\n",
    "headererror": GOOD.replace("X. 1:", "X. 1:\nthis line has no period or colon"),
    "reshape": GOOD.replace("WRAP. NO", "WRAP. YES").replace("2 20\n", "2 20 30\n"),
    "lidar": "LASF rest of a lidar file\nmore\n",
    "textcol": GOOD.replace("2 20", "2 abc"),
}


def run(ctx):
    rng = random.Random(ctx.seed)
    thorough = ctx.tier == "thorough"
    for fin in ("TRUE",):
        cfg = ("SPECIFICATION Spec\nCONSTANTS\n  NHelper = %d\n  NOps = %d\n  WriteHasFinally = %s\n"
               "INVARIANT NoLeak\nINVARIANT CallerKept\nCHECK_DEADLOCK FALSE\n" % (3, 6 if thorough else 4, fin))
        ctx.model_check("HandlesAlgo", cfg, label="HandlesAlgo NoLeak/CallerKept", workers=4)
    cfg = ("SPECIFICATION Spec\nCONSTANTS\n  NHelper = 1\n  NOps = 2\n  WriteHasFinally = FALSE\n"
           "INVARIANT NoLeak\nCHECK_DEADLOCK FALSE\n")
    r = tlc.run("HandlesAlgo", cfg, workers=1, allow_violation=True)
    ctx.extra["model_sensitive_to_missing_finally"] = (r.violation == "NoLeak")
    if r.violation != "NoLeak":
        raise tlc.MachineryError("HandlesAlgo without try/finally should violate NoLeak")

    work = tlc.scratch("c20")
    traces, meta = [], []

    def record(kind, name, make, fault_at=None, callerfile=None):
        ev, n, exc = handles.run_call(kind, make, fault_at, callerfile)
        traces.append(ev)
        meta.append({"kind": kind, "input": name, "fault_at": fault_at, "exc": type(exc).__name__ if exc else ""})
        ctx.evaluations += 1
        ctx.case([kind, name, fault_at])
        return n, exc

    def sweep(kind, name, factory, with_caller=False):
        """clean run, then a fault at every operation"""
        mk, cf = factory()
        n, exc = record(kind, name, mk, None, cf)
        if cf is not None and not cf.closed:
            cf.close()
        ks = list(range(1, n + 1))
        if not thorough and len(ks) > 40:
            ks = sorted(set(ks[:15] + ks[-10:] + rng.sample(ks, 15)))
        for k in ks:
            mk, cf = factory()
            record(kind, name, mk, k, cf)
            if cf is not None and not cf.closed:
                cf.close()
        return n

    # ---- read(path) / read(Path), every input class and encoding variant
    enc_variants = [("utf-8", {}), ("utf-8-sig", {}), ("latin-1", {"encoding": "latin-1"}),
                    ("utf-16", {"encoding": "utf-16"}), ("utf-8", {"autodetect_encoding": False}),
                    ("utf-8", {"encoding": "ascii", "encoding_errors": "strict"})]
    nread = 0
    for name, text in INPUTS.items():
        for codec, kw in (enc_variants if name == "good" else enc_variants[:1]):
            path = os.path.join(work, "%s-%s-%d.las" % (name, codec, len(kw)))
            with open(path, "w", encoding=codec, newline="") as f:
                f.write(text)
            for as_path in (False, True):
                def factory(path=path, kw=kw, as_path=as_path):
                    def mk():
                        return lasio.read(pathlib.Path(path) if as_path else path, **kw)
                    return mk, None
                nread += sweep("read", "%s/%s/%s/%s" % (name, codec, sorted(kw), "Path" if as_path else "str"), factory)
    if thorough:
        # the example corpus: a fault at every low-level operation of reading each (smaller) file by path
        import glob
        files = sorted(glob.glob(os.path.join(core.REPO, "tests", "examples", "*.las")))
        for fn in files[::3]:
            if os.path.getsize(fn) > 20000:
                continue
            def factory(fn=fn):
                def mk():
                    return lasio.read(fn)
                return mk, None
            nread += sweep("read", "corpus:" + os.path.basename(fn), factory)
    # ---- write(path), write(file), to_csv(path), to_csv(file)
    def las_objects():
        yield "good", lambda: lasio.read(GOOD)
        yield "textcurve", lambda: lasio.read(INPUTS["textcol"])
        yield "empty", lambda: lasio.LASFile()
        yield "wrapped", lambda: lasio.read(INPUTS["wrapped"])
    wkw = [("default", {}), ("v12", {"version": 1.2}), ("badversion", {"version": 3}), ("wrap", {"wrap": True}),
           ("badfmt", {"fmt": "%d%d"}), ("mnemhdr", {"mnemonics_header": True})]
    ckw = [("default", {}), ("badkw", {"delimiter": "ab"}), ("nomnem", {"mnemonics": False, "units": False}),
           ("brackets", {"units_loc": "[]"}), ("shortlists", {"mnemonics": ["a"], "units": ["u"]})]
    outn = [0]
    for oname, mkobj in las_objects():
        for call, kws in (("write", wkw), ("to_csv", ckw)):
            for kname, kw in kws:
                for own, prior in ((True, False), (False, False), (True, True), (False, True)):
                    def factory(mkobj=mkobj, call=call, kw=kw, own=own, prior=prior):
                        las = mkobj()
                        outn[0] += 1
                        path = os.path.join(work, "out%d.txt" % outn[0])
                        if prior:
                            # the object has a history: it was written to a path of its own and to a caller's file before
                            # (outside the tracked call); what lasio remembers from then must not change who closes what now
                            try:
                                las.write(os.path.join(work, "prior%d.las" % outn[0]))
                                las.to_csv(os.path.join(work, "prior%d.csv" % outn[0]))
                                with handles._real_open(os.path.join(work, "prior%d.txt" % outn[0]), "w") as pf:
                                    las.write(pf)
                            except Exception:
                                pass
                        cf = None if own else handles._real_open(path, "w")

                        def mk():
                            getattr(las, call)(path if own else cf, **kw)
                            return las
                        mk.las = las
                        return mk, cf
                    sweep(call, "%s/%s/%s%s" % (oname, kname, "path" if own else "callerfile", "/after-earlier-writes" if prior else ""), factory)
    shutil.rmtree(work, ignore_errors=True)
    fails, _ = ctx.validate("Trace_Handles", {"traces": traces})
    for tid, l, clause in fails:
        if clause.startswith("C20.Harness") or clause.startswith("C20.Protocol"):
            raise tlc.MachineryError("harness inconsistency %s in trace %d: %s" % (clause, tid, meta[tid]))
        ctx.report(clause, "%s" % meta[tid], {"meta": meta[tid], "trace": traces[tid][-12:], "event": l})
    ctx.require_ops("Trace_Handles", ["begin", "open", "io", "fault", "close", "end"])
    excs = {}
    for m in meta:
        excs[m["exc"]] = excs.get(m["exc"], 0) + 1
    ctx.extra["exception_classes_seen"] = excs
    ctx.extra["fault_injected_runs"] = sum(1 for m in meta if m["fault_at"])
    ctx.sample({"meta": meta[1], "trace": traces[1][:14]})
    ctx.sample({"meta": meta[-1], "trace": traces[-1][-8:]})
    ctx.assumptions += [
        "only handles created through builtins.open / io.open during the call count as opened by lasio",
        "read() closing a caller-supplied file object is existing behaviour the statement does not address (not checked)",
        "the exception object is kept alive while the handle states are read, so reference counting cannot hide a leak",
    ]
    return ctx.finish(RULE)
