"""C13 - duplicate and blank mnemonics: unique session names, originals preserved."""
import json
import random

from harness import core, section, tlc

PREFIX = "C13."
RULE = ("spec->code: every transition of the SectionAlgo state graph (TLC, explored to its fixpoint for the stated "
        "constants) replayed on a real SectionItems built through a shortest history; code->spec: seeded random "
        "histories on fresh sections and on sections returned by lasio.read with each mnemonic_case, all validated by "
        "Trace_Section.  A case is distinct by (case-normalisation flag, abstract pre-state, operation with arguments) "
        "or by its full history; all of them exercise at least one mutation or lookup.")


def params(ctx):
    if ctx.tier == "thorough":
        return dict(names=["A", "a", "", "A:1"], keys=["A", "a", "A:1", "A:2", "UNKNOWN", "Z"], maxlen=3,
                    limit=150000, nrand=20000, maxops=10)
    return dict(names=["A", "a", "", "A:1"], keys=["A", "a", "A:1", "A:2", "UNKNOWN", "Z"], maxlen=2,
                limit=6000, nrand=1500, maxops=8)


def run(ctx, prefix=PREFIX):
    p = params(ctx)
    rng = random.Random(ctx.seed)
    edges, r = section.edges_from_tlc(ctx, p["names"], p["keys"], p["maxlen"])
    ctx.exhaustive = p["limit"] is None or len(edges) <= p["limit"]
    ctx.extra["model_edges"] = len(edges)
    ctx.extra["design_level_D14_counterexample"] = section.design_counterexample(ctx, p["names"], p["keys"], p["maxlen"])
    # histories that put an item back after it was deleted (it keeps its stale session name): SectionReuse, model only; the
    # image of "re-number by the session name of the new item" (seeded change C13-19) must break the refinement
    tset = lambda xs: "{" + ", ".join('"%s"' % x for x in xs) + "}"
    rnames, rkeys = ["A", ""], ["A", "A:1"]
    rcfg = ("SPECIFICATION Spec2\nCONSTANTS\n  Names = %s\n  KeyPool = %s\n  MaxLen = 3\n  MaxDepth = 0\n  Emit = FALSE\n  RenumberBy = \"%s\"\n"
            "PROPERTY Refines2\n%sVIEW View2\nCHECK_DEADLOCK FALSE\n")
    rr = ctx.model_check("SectionReuse", rcfg.replace("Emit = FALSE", "Emit = TRUE").replace("PROPERTY Refines2", "ACTION_CONSTRAINT EmitBack\nPROPERTY Refines2")
                         % (tset(rnames), tset(rkeys), "useful", "INVARIANT DistinctOrKnown\nINVARIANT ResolvesInv\n"),
                         label="SectionReuse refines Section (items put back after deletion; names=%s)" % rnames, workers=16, timeout=3000)
    putbacks = rr.printed_json()
    putbacks.sort(key=lambda ed: json.dumps(ed, sort_keys=True))
    if not putbacks:
        raise tlc.MachineryError("SectionReuse printed no put-back transition")
    ctx.extra["model_putback_edges"] = len(putbacks)
    if ctx.tier == "thorough":
        # the larger instance, model only: three names incl. a literal "A:1", five keys (1.2 M distinct states, about 5 minutes)
        ctx.model_check("SectionReuse", rcfg % (tset(["A", "", "A:1"]), tset(["A", "A:1", "A:2", "UNKNOWN", "Z"]), "useful",
                                                "INVARIANT DistinctOrKnown\nINVARIANT ResolvesInv\n"),
                        label="SectionReuse refines Section (names=['A', '', 'A:1'], 5 keys), model only", workers=16, timeout=3400)
    rs = tlc.run("SectionReuse", rcfg % (tset(["A", ""]), tset(["A", "A:1"]), "session", ""), workers=4, timeout=600, allow_violation=True)
    if rs.violation != "Refines2":
        raise tlc.MachineryError("SectionReuse with RenumberBy = session does not violate Refines2 (%r): the model does not react" % rs.violation)
    ctx.extra["design_level_sensitivity_renumber_by_session_name"] = True
    if ctx.tier == "thorough":
        # deeper refinement checks of the algorithm layer, model only (no replay): more names, longer sections
        for nm, ks, ml in ((["A", "a", "B", "", "A:1"], ["A", "a", "B", "A:1", "A:2", "UNKNOWN", "Z"], 3),
                           (["A", "", "A:1"], ["A", "A:1", "A:2", "UNKNOWN", "Z"], 4)):
            tset = lambda xs: "{" + ", ".join('"%s"' % x for x in xs) + "}"
            cfg = ("SPECIFICATION Spec\nCONSTANTS\n  Names = %s\n  KeyPool = %s\n  MaxLen = %d\n  MaxDepth = 0\n  Emit = FALSE\n"
                   "ACTION_CONSTRAINT EmitEdge\nPROPERTY Refines\nINVARIANT DistinctOrKnown\nINVARIANT ResolvesInv\n"
                   "INVARIANT CopyKeepsNames\nVIEW View\nCHECK_DEADLOCK FALSE\n" % (tset(nm), tset(ks), ml))
            ctx.model_check("SectionAlgo", cfg, label="SectionAlgo refines Section (names=%s, MaxLen=%d), model only" % (nm, ml),
                            workers=16, timeout=3600)
    all_traces, all_meta = [], []
    for kind in ("header", "curve"):
        t, m = section.replay_edges(ctx, edges, p["keys"], kind=kind, limit=p["limit"], rng=rng)
        all_traces += t
        all_meta += m
    for kind in ("header", "curve"):
        t, m = section.replay_putbacks(ctx, putbacks, rkeys, kind=kind, limit=None if ctx.tier == "thorough" else 2500, rng=rng)
        all_traces += t
        all_meta += m
    big = ["A", "a", "B", "b", "", " ", "A:1", "a:1", "A:2", "1", "UNKNOWN", "UNKNOWN:1"]
    for kind in ("header", "curve"):
        t, m = section.random_histories(ctx, rng, p["nrand"], p["maxops"], big, kind=kind)
        all_traces += t
        all_meta += m
        for case in ("preserve", "upper", "lower"):
            t, m = section.random_histories(ctx, rng, p["nrand"] // 4, p["maxops"], ["A", "a", "B", "", "DEPT", "UNKNOWN", "1"],
                                            kind=kind, read_case=case)
            all_traces += t
            all_meta += m
    if ctx.tier == "thorough":
        # a third source of traces: the repository's own unedited test-suite, run under harness.recorder
        from harness import suitetrace
        doc = suitetrace.record()
        if doc is not None:
            ctx.extra["suite_traces"] = {"pytest": doc["pytest_summary"], "section_traces": len(doc["sections"]),
                                         "events": sum(len(t) for t in doc["sections"])}
            for t in doc["sections"]:
                all_traces.append(t)
                all_meta.append({"source": "repository test-suite (harness.recorder)"})
    # scale: long histories over very few names -> ten and more duplicates (two-digit suffixes), long sections
    for kind in ("header", "curve"):
        t, m = section.random_histories(ctx, rng, 120 if ctx.tier != "thorough" else 1500, 34, ["A", "A", "A", "", "b"], kind=kind)
        all_traces += t
        all_meta += m
    # names are opaque strings: format characters, braces, blanks inside, non-ASCII letters, '#', '~', digits only
    odd = ["P%", "P%", "S%%d", "{0}", "{x}", "50% x", "x y", "\u00e9", "\u00c9", "#1", "~T", "7", "%s"]
    for kind in ("header", "curve"):
        t, m = section.random_histories(ctx, rng, 150 if ctx.tier != "thorough" else 3000, 7, odd, kind=kind)
        all_traces += t
        all_meta += m
    fails, _ = ctx.validate("Trace_Section", section.doc_for(all_traces))
    section.judge(ctx, all_traces, all_meta, fails, prefix)
    ctx.require_ops("Trace_Section", ["init", "append", "insert", "delidx", "delkey", "setitem", "setvalue", "get", "probe", "roundtrip"])
    ctx.sample({"model_edge": edges[len(edges) // 2]})
    ctx.sample({"replayed_trace": all_traces[len(edges) // 3 if len(all_traces) > len(edges) // 3 else 0]})
    ctx.sample({"random_history": all_meta[-1]})
    ctx.assumptions += [
        "upper-casing of names is delegated to the projection (Python str.upper) because TLA+ strings are atomic",
        "after a deletion the statement fixes nothing about session names except distinctness and resolution",
        "replace (section[key] = item) must keep names distinct and leave other groups untouched; numbering of the new "
        "item's group after a replace is not required",
        "rename through item.mnemonic = ... and list-constructor initialisation are not in the statement's operation list",
    ]
    return ctx.finish(RULE)
