"""C03 - header metadata survives write->read in every section and both versions."""
import random

from harness import core, roundtrip, tlc

RULE = ("design level: WriteLayout!OrdersAgree (TLC) -- writer and reader choose the same value/description order for every spelling "
        "of a mnemonic, version and read case; spec->code: item lists of length 0..MaxList drawn from a pool of representative items "
        "(all-empty, unit-wide, value-wide, mnemonic-wide, description-wide, duplicate, blank and case-variant mnemonics, numeric / "
        "textual / quoted / bracketed / non-ASCII fields) in each of ~Version, ~Well, ~Curves, ~Parameter x {1.2, 2.0} x {preserve, "
        "upper, lower} (WriteInstances, TLC), built into real LASFiles, written, re-read and compared item by item by Trace_RoundTrip "
        "(which also evaluates the conformance predicate of the statement on every logged item).  Distinct by instance.")


def run(ctx):
    rng = random.Random(ctx.seed)
    thorough = ctx.tier == "thorough"
    cfg = ("SPECIFICATION Spec\nCONSTANTS\n  MaxCurves = 2\n  MaxCap = 2\n  RowSet = {1}\n  UseDeclaredWhenWrapped = TRUE\n"
           "INVARIANT OrdersAgree\nCHECK_DEADLOCK FALSE\n")
    ctx.model_check("WriteLayout", cfg, label="WriteLayout: OrdersAgree", workers=2)
    # the design-level theorem: every line the writer algorithm lays out is read back by the reader algorithm and by the grammar
    wl = ("SPECIFICATION Spec\nCONSTANTS\n  NumericPadFix = %s\n  DottedUnitFix = %s\nINVARIANT ReadsBack\nINVARIANT ReadsBackByGrammar\n"
          "CHECK_DEADLOCK FALSE\n")
    ctx.model_check("WriteLineCheck", wl % ("TRUE", "TRUE"), label="WriteLineCheck: ReadsBack, ReadsBackByGrammar (208 849 sections)",
                    workers=8, timeout=1800)
    r1 = tlc.run("WriteLineCheck", wl % ("FALSE", "TRUE"), workers=2, allow_violation=True, timeout=900)
    r2 = tlc.run("WriteLineCheck", wl % ("TRUE", "FALSE"), workers=2, allow_violation=True, timeout=900)
    ctx.extra["theorem_sensitive_to_numeric_unit_padding_D32"] = r1.violation is not None
    ctx.extra["theorem_sensitive_to_dotted_unit_delimiter_D21"] = r2.violation is not None
    if r1.violation is None or r2.violation is None:
        raise tlc.MachineryError("WriteLineCheck should fail without the D32 / D21 repairs")
    r = tlc.run("WriteLayout", cfg.replace("INVARIANT OrdersAgree", "INVARIANT OldOrdersAgree"), workers=1, allow_violation=True)
    ctx.extra["model_sensitive_to_exact_spelling_tables"] = (r.violation == "OldOrdersAgree")
    n = len(roundtrip.ITEMS)
    cfg = ("SPECIFICATION Spec\nCONSTANTS\n  Family = \"C03\"\n  MaxCurves = 1\n  NPres = 1\n  NItems = %d\n  MaxList = %d\n  TallRows = {}\n  Emit = TRUE\n"
           "CONSTRAINT EmitInst\nCHECK_DEADLOCK FALSE\n" % (n, 3 if thorough else 2))
    r = ctx.model_check("WriteInstances", cfg, label="WriteInstances family C03", workers=16, timeout=3000)
    insts = r.printed_json()
    insts.sort(key=lambda i: repr(sorted(i.items())))
    ctx.extra["model_instances"] = len(insts)
    limit = 50000 if thorough else 2500          # (24 items: 346 000 lists of <= 3 items x section x version x case)
    ctx.exhaustive = len(insts) <= limit
    if len(insts) > limit:
        insts = [insts[i] for i in sorted(rng.sample(range(len(insts)), limit))]
    events = []
    for inst in insts:
        events.append(roundtrip.header_event(inst, rng))
        ctx.evaluations += 1
        ctx.case(inst)
    slim = [[{k: v for k, v in e.items() if k != "text"}] for e in events]
    fails, _ = ctx.validate("Trace_RoundTrip", {"traces": slim}, timeout=3000)
    for tid, l, clause in fails:
        ev = events[tid]
        if clause.startswith("Harness."):
            raise tlc.MachineryError("non-conformant item generated: %s" % insts[tid])
        if clause.startswith("Drift."):
            if len(ctx.drift) < 50:
                ctx.drift.append({"instance": insts[tid], "text": ev.get("text", "")[:1500]})
            continue
        diffs = []
        for a, b in zip(ev["secs"], ev["obs"]):
            for x, y in zip(a["items"], b["items"]):
                fx = ["".join(map(chr, x[k])) for k in ("oc", "u", "v", "d")]
                fy = ["".join(map(chr, y[k])) for k in ("o", "u", "v", "d")]
                if fx != fy:
                    diffs.append((a["name"], fx, fy))
        ctx.report(clause, "instance=%s exc=%r differences=%s" % (insts[tid], ev["exc"], diffs[:3]),
                   {"instance": insts[tid], "text": ev.get("text"), "differences": diffs})
    ctx.sample({"instance": insts[len(insts) // 2], "text": events[len(insts) // 2].get("text", "")[:1200]})
    ctx.assumptions += [
        "permitted differences: STRT/STOP/STEP value and unit (refreshed / aligned), the index curve's unit, an empty value with a unit "
        "in ~Well/~Parameter written as 0; VERS and WRAP are set by the writer options and are not compared",
        "numbers compared numerically (canonical decimal in the projection); case mapping by Python str.upper/lower (projection)",
        "a blank mnemonic is only generated with fields that contain no period",
    ]
    return ctx.finish(RULE)
