"""C14 - the curve collection behaves like an ordered list model under every edit history."""
import random

from harness import core, curves, tlc

RULE = ("spec->code: transitions of the CurvesAlgo state graph (two LASFile objects, explored to the fixpoint for the stated "
        "constants) replayed on real LASFile objects built through a shortest history, six views projected after every "
        "step; code->spec: seeded random histories on fresh and on read LASFiles (each mnemonic_case), two objects edited "
        "alternately; all validated by Trace_Curves.  Distinct by (abstract pre-state of both objects, operation with "
        "arguments) or by full history.")


def run(ctx):
    rng = random.Random(ctx.seed)
    thorough = ctx.tier == "thorough"
    edges, r = curves.edges_from_tlc(ctx, ["A", "B", ""], 2, emit=True)
    ctx.extra["model_edges"] = len(edges)
    limit = 150000 if thorough else 6000
    ctx.exhaustive = limit is None
    traces, meta = curves.replay_edges(ctx, edges, limit, rng)
    if thorough:
        curves.edges_from_tlc(ctx, ["A", "B", ""], 3, emit=False, timeout=3600)
    names = ["A", "B", "a", "", "A:1", "DEPT", "GR"]
    nrand = 20000 if thorough else 1500
    for case in (None, "preserve", "upper", "lower"):
        # sections read with case normalisation compare names case-insensitively: names that differ only in case are
        # duplicates there (numbered like any others: the projection logs the comparison key `of`), and every key must
        # still address its own curve
        # (literal 'X:k' names are left out there: next to case variants they collide the way finding D14 describes)
        alphabet = names if case in (None, "preserve") else ["A", "B", "", "DEPT", "GR", "X", "a", "gr"]
        if case == "lower":
            alphabet = [x.swapcase() for x in alphabet]
        t, m = curves.random_histories(ctx, rng, nrand if case is None else nrand // 4, 8, alphabet, read_case=case)
        traces += t
        meta += m
    t, m = curves.random_histories(ctx, rng, 150 if not thorough else 2000, 30, ["A", "A", "B", ""], read_case=None)
    traces += t
    meta += m
    fails, _ = ctx.validate("Trace_Curves", {"traces": traces})
    for tid, l, clause in fails:
        ev = traces[tid][l]
        detail = "event %d %s of trace %d -> %s" % (
            l, {k: v for k, v in ev.items() if k not in ("post", "views")}, tid,
            [[(c["o"], c["s"], c["a"]) for c in L] for L in ev["post"]])
        ctx.report(clause, detail, {"meta": meta[tid], "trace": traces[tid], "event": l})
    ctx.require_ops("Trace_Curves", ["init", "append_curve", "insert_curve", "delete_ix", "delete_mn", "update_mn", "update_ix", "replace_item",
                                     "setitem_arr", "setitem_item", "set_data"])
    ctx.sample({"model_edge": edges[len(edges) // 2]})
    ctx.sample({"random_history": meta[-1]})
    ctx.assumptions += [
        "arrays carry their identity in their content ([k, k+0.5]); array equality is decided by the projection",
        "set_data: names of curves beyond a shorter names list are unconstrained; arrays narrower than the curve list, "
        "mismatched lengths and failing calls are outside the quantifier (a failing call must still leave both objects unchanged)",
        "lookups by mnemonic in delete_curve/update_curve/las[k] are exact-case matches on session names",
    ]
    return ctx.finish(RULE)
