"""C01 - numeric curve data survives write->read within the printed precision."""
import random

from harness import core, roundtrip, tlc

RULE = ("design level: WriteLayout (TLC) -- for every curve count 1..40, every number of fields per wrapped line 1..12 and row counts "
        "{1,2,3,22} the reader's column count after sniffing equals the declared curve count (the pre-repair rule is shown to fail); "
        "spec->code: the product version x wrap x engine x mnemonics_header x NaN-mask class x presentation class x curve count "
        "1..40 x rows {1,2,3,22} (WriteInstances, TLC) is written by real lasio from float64 samples over the whole magnitude range "
        "and read back; the projection decides per sample 'within half a unit of the last printed digit'; validated by "
        "Trace_RoundTrip.  Distinct by option tuple.")


def run(ctx):
    rng = random.Random(ctx.seed)
    thorough = ctx.tier == "thorough"
    for flag, label in (("TRUE", "WriteLayout: ShapeRecovered and OrdersAgree"),):
        cfg = ("SPECIFICATION Spec\nCONSTANTS\n  MaxCurves = 40\n  MaxCap = 12\n  RowSet = {1, 2, 3, 22}\n"
               "  UseDeclaredWhenWrapped = %s\nINVARIANT ShapeRecovered\nINVARIANT OrdersAgree\nCHECK_DEADLOCK FALSE\n" % flag)
        ctx.model_check("WriteLayout", cfg, label=label, workers=4)
    r = tlc.run("WriteLayout", cfg.replace("= TRUE", "= FALSE"), workers=1, allow_violation=True)
    ctx.extra["model_sensitive_to_sniffed_reshape"] = (r.violation == "ShapeRecovered")
    if r.violation != "ShapeRecovered":
        raise tlc.MachineryError("WriteLayout with the sniffed column count should violate ShapeRecovered")
    cfg = ("SPECIFICATION Spec\nCONSTANTS\n  Family = \"C01\"\n  MaxCurves = 40\n  NPres = %d\n  NItems = 1\n  MaxList = 0\n  TallRows = {%s}\n"
           "  Emit = TRUE\nCONSTRAINT EmitInst\nCHECK_DEADLOCK FALSE\n" % (
               len(roundtrip.PRES), "255, 256, 257, 512, 1000, 1001, 1024, 2000, 2048, 4096" if thorough else "256, 1000, 1001"))
    r = ctx.model_check("WriteInstances", cfg, label="WriteInstances family C01", workers=16, timeout=3000)
    insts = r.printed_json()
    insts.sort(key=lambda i: repr(sorted(i.items())))
    ctx.extra["model_instances"] = len(insts)
    limit = 60000 if thorough else 2500
    tall = [i for i in insts if i["nrows"] > 101]          # always all of them
    insts = [i for i in insts if i["nrows"] <= 101]
    if len(insts) > limit:
        insts = [insts[i] for i in sorted(rng.sample(range(len(insts)), limit))]
    insts += tall
    ctx.extra["tall_instances"] = len(tall)
    ctx.exhaustive = False
    events = []
    for inst in insts:
        events.append(roundtrip.data_event(inst, rng))
        ctx.evaluations += 1
        ctx.case(inst)
    slim = [[roundtrip.slim_data(e)] for e in events]
    fails, _ = ctx.validate("Trace_RoundTrip", {"traces": slim}, timeout=3000)
    for tid, l, clause in fails:
        ev = events[tid]
        bad = [(i, j, ev["obs"]["cells"][i][j]) for i in range(len(ev["obs"]["cells"])) for j in range(len(ev["obs"]["cells"][i]))
               if ev["obs"]["cells"][i][j] != ("NAN" if ev["mask"][i][j] else "OK")][:4]
        ctx.report(clause, "opts=%s engine=%s shape=%dx%d observed=%dx%d exc=%r first-bad-cells=%s" % (
            ev["opts"], ev["engine"], ev["nrows"], ev["ncurves"], ev["obs"]["nrows"], ev["obs"]["ncurves"], ev["exc"], bad),
            {"instance": insts[tid], "event": ev})
    ctx.sample({"instance": insts[0], "opts": events[0]["opts"], "text": events[0].get("text", "")[:600]})
    ctx.sample({"instance": insts[-1], "opts": events[-1]["opts"]})
    ctx.assumptions += [
        "'within half a unit of the last digit the format prints': |y - x| <= ulp10(fmt % x)/2 + 2 float64 ulps, in Decimal arithmetic (projection)",
        "len_numeric_field, when given, exceeds every formatted width (documented requirement); no finite sample equals, or prints as, the NULL marker",
        "spacers are whitespace; STRT/STOP/STEP are left to lasio; curves are float; the index is finite",
        "numeric formats round to the digits they print (%f, %e, %g forms); '%d' truncates and is outside the statement's tolerance by "
        "Python's own semantics; wrap is a bool",
    ]
    return ctx.finish(RULE)
