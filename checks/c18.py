"""C18 - JSON, CSV, Excel, DataFrame and depth views carry the same values as the curves."""
import csv
import io
import json
import math
import os
import random

import numpy as np

from harness import core, tlc

import lasio
from lasio.las_items import HeaderItem

RULE = ("spec->code: the 256 combinations of unit classes {M, FT, .1IN, other}^4 for STRT/STOP/STEP/first curve and the 27 to_csv option "
        "combinations are enumerated by TLC (ViewsCheck) together with their expected index unit / header rows (Views.tla); every "
        "unit combination is spelled with seeded members of the recognised sets in any case (and clearly foreign units) in a generated "
        "file and read; LASFiles with int / float / text / NaN / None header values, float and text curves, NaN samples, duplicate "
        "and blank mnemonics and the empty LASFile are exported with to_json (strict parser), to_csv (every option combination x csv "
        "dialect kwargs), to_excel (re-opened with openpyxl), df() and set_data_from_df(df()); all observations validated by "
        "Trace_Views.  Distinct by (object, export, options).")

SPELL = {"M": ["M", "m", "METER", "meters", "Metres", "METRE", "metre", "м", "метер", "М", "МЕТЕР", "Метер"],
         "FT": ["FT", "ft", "F", "f", "FEET", "feet", "Foot", "Ft"],
         ".1IN": [".1IN", "0.1IN", ".1in", "0.1inch", ".1INCH", "0.1In"],
         "other": ["", "km", "s", "ms", "degC", "gAPI", "us", "lbs"]}
DECOYS = [("M", "M", "M", "M"), ("FT", "FT", "FT", "FT"), (".1IN", ".1IN", ".1IN", ".1IN"), ("other", "other", "other", "other"),
          ("M", "FT", "other", "other")]


def strict_loads(text):
    def bad(x):
        raise ValueError("non-standard JSON constant %r" % x)
    return json.loads(text, parse_constant=bad)


def pyclass(v):
    if v is None:
        return "none"
    if isinstance(v, (bool, np.bool_)):
        return "bool"
    if isinstance(v, (int, np.integer)):
        return "int"
    if isinstance(v, (float, np.floating)):
        if v in (float("inf"), float("-inf")):
            return "inf"            # JSON has no number for it; the statement fixes only NaN -> null (and strict parsing)
        return "nan" if v != v else "float"
    return "str"


def jsonclass(v):
    if v is None:
        return "null"
    if isinstance(v, bool):
        return "bool"
    if isinstance(v, (int, float)):
        return "num"
    return "str" if isinstance(v, str) else type(v).__name__


def objects(rng, thorough):
    """(name, factory) of LASFile objects covering the value classes of the statement."""
    def base(n=3, text=False, nan=True, dup=False, headers="mixed"):
        las = lasio.LASFile()
        idx = np.array([100.0 + 0.5 * i for i in range(n)])
        las.append_curve("DEPT", idx, unit="m")
        g = np.array([10.5 * (i + 1) for i in range(n)])
        if nan and n > 1:
            g[1] = np.nan
        las.append_curve("GR", g, unit="gAPI", descr="gamma")
        las.append_curve("GR" if dup else "RHOB", np.array([2.0 + i for i in range(n)]))
        if dup:
            las.append_curve("", np.array([7.0 * i for i in range(n)]))
        if text:
            las.append_curve("LITH", np.array(["sand", "shale", "lime", "coal", "salt"][:n]))
        if headers == "mixed":
            las.well["WELL"].value = "W-1"
            las.well["COMP"].value = 12
            las.well["FLD"].value = np.int64(7)
            las.well["LOC"].value = np.float64(2.5)
            las.well["PROV"].value = None
            las.params.append(HeaderItem("BHT", "degC", 80.25, "temp"))
            las.params.append(HeaderItem("RUN", "", np.int32(3), "run"))
            las.params.append(HeaderItem("NANV", "", float("nan"), "nan value"))
            las.params.append(HeaderItem("TXT", "", "some \"quoted\" text, with comma", "text"))
            las.params.append(HeaderItem("TXT", "", "dup", "dup mnemonic"))
        return las
    yield "float", lambda: base()
    yield "text-curve", lambda: base(text=True)
    yield "dups-blank", lambda: base(dup=True)
    yield "one-row", lambda: base(n=1)
    yield "five-rows-plain-headers", lambda: base(n=5, headers="default")
    yield "no-nan", lambda: base(nan=False)
    def objcurve():
        las = base(n=3)
        las.append_curve("MIX", np.array([1.5, np.nan, "x"], dtype=object))      # object dtype with a float NaN inside
        las.append_curve("OBJF", np.array([1.5, np.nan, 3.5], dtype=object))
        return las
    yield "object-curves", objcurve
    def smallfloats():
        las = base(n=3)
        las.append_curve("F32", np.array([1.5, np.nan, 3.5], dtype=np.float32))         # numpy scalars that are not Python floats
        las.append_curve("F16", np.array([0.5, 2.0, np.nan], dtype=np.float16))
        las.append_curve("I32", np.array([1, 2, 3], dtype=np.int32))
        las.params.append(HeaderItem("F32V", "", np.float32("nan"), "float32 NaN value"))
        las.params.append(HeaderItem("F32W", "", np.float32(2.5), "float32 value"))
        return las
    yield "small-floats", smallfloats
    def nonfinite():
        las = base(n=4, nan=True)
        las.append_curve("BIG", np.array([1.0, np.inf, -np.inf, 1.7976931348623157e308]))
        las.params.append(HeaderItem("INFV", "", float("inf"), "non-finite value"))
        return las
    yield "non-finite", nonfinite
    yield "read-overflow", lambda: lasio.read("~V\nVERS. 2.0:\nWRAP. NO:\n~W\nNULL. -999.25:\n~C\nDEPT.M:\nGR.:\n~A\n1 1.0E+309\n2 -1.0E+309\n3 5\n")
    yield "empty", lambda: lasio.LASFile()
    yield "read-sample", lambda: lasio.read(os.path.join(core.REPO, "tests", "examples", "sample.las"))
    yield "read-wrapped", lambda: lasio.read(os.path.join(core.REPO, "tests", "examples", "1.2", "sample_wrapped.las"))
    yield "header-only", lambda: lasio.read("~V\nVERS. 2.0:\nWRAP. NO:\n~W\nNULL. -999.25:\n~C\nDEPT.M:\nGR.:\n~A\n")
    if thorough:
        for fn in sorted(os.listdir(os.path.join(core.REPO, "tests", "examples")))[::4]:
            if fn.endswith(".las"):
                p = os.path.join(core.REPO, "tests", "examples", fn)
                try:
                    lasio.read(p)
                except Exception:
                    continue
                yield "corpus:" + fn, (lambda p=p: lasio.read(p))


def isnan(x):
    try:
        return float(x) != float(x)
    except (TypeError, ValueError):
        return False


def same(a, b):
    if isnan(a):
        return b is None or b == "" or isnan(b)
    try:
        return float(a) == float(b)
    except (TypeError, ValueError):
        return str(a) == str(b)


def json_event(name, las):
    ev = {"op": "json", "obj": name, "strict_ok": False, "sections_present": False, "items": [], "curves_ok": False}
    try:
        text = las.to_json()
        doc = strict_loads(text)
        ev["strict_ok"] = True
    except Exception as e:
        ev["error"] = "%s: %s" % (type(e).__name__, str(e)[:100])
        return ev
    md = doc.get("metadata", {})
    ev["sections_present"] = all(k in md for k in las.sections)
    for secname, sec in las.sections.items():
        if isinstance(sec, str):
            ev["items"].append({"py": "str", "json": jsonclass(md.get(secname)), "eq": md.get(secname) == sec, "key": secname})
            continue
        seen = set()
        for it in list.__iter__(sec):
            if it.mnemonic in seen:
                continue
            seen.add(it.mnemonic)
            j = md.get(secname, {}).get(it.mnemonic, "<missing>")
            ev["items"].append({"py": pyclass(it.value), "json": jsonclass(j), "key": secname + "." + it.mnemonic,
                                "eq": (j is None) if pyclass(it.value) in ("nan", "none") else
                                      (True if pyclass(it.value) == "inf" else same(it.value, j))})
    ok = set(doc.get("data", {})) == set(c.mnemonic for c in las.curves)
    for c in las.curves:
        col = doc.get("data", {}).get(c.mnemonic)
        if col is None or len(col) != len(c.data):
            ok = False
            continue
        for x, y in zip(c.data, col):
            if isinstance(x, (float, np.floating)) and abs(x) == float("inf"):
                continue            # only strict parsing is demanded of an infinite sample
            if isinstance(x, (float, np.floating)) and x != x:
                ok = ok and y is None
            else:
                ok = ok and y is not None and same(x, y)
    ev["curves_ok"] = bool(ok)
    return ev


def csv_event(name, las, mn, un, loc, kw):
    nc = len(las.curves)
    mnv = {"true": True, "false": False, "list": ["m%d" % i for i in range(nc)]}[mn]
    unv = {"true": True, "false": False, "list": ["u%d" % i for i in range(nc)]}[un]
    ev = {"op": "csv", "obj": name, "mn": mn, "un": un, "loc": loc, "kw": {k: repr(v) for k, v in kw.items()}, "exc": "",
          "header_kinds": [], "header_cells_ok": False, "nrecords": 0, "nrows": 0, "values_ok": False}
    s = io.StringIO()
    try:
        data = las.data
        las.to_csv(s, mnemonics=mnv, units=unv, units_loc=loc, **kw)
    except Exception as e:
        ev["exc"] = "%s: %s" % (type(e).__name__, str(e)[:80])
        return ev
    rd = dict(kw)
    rd.setdefault("lineterminator", "\n")
    rows = list(csv.reader(io.StringIO(s.getvalue(), newline=""), **{k: v for k, v in rd.items() if k != "lineterminator"})) \
        if rd["lineterminator"] in ("\n", "\r\n") else list(csv.reader(s.getvalue().split(rd["lineterminator"])[:-1],
                                                                      **{k: v for k, v in rd.items() if k != "lineterminator"}))
    exp_m = [c.original_mnemonic for c in las.curves] if mn == "true" else (mnv if mn == "list" else None)
    exp_u = [c.unit for c in las.curves] if un == "true" else (unv if un == "list" else None)
    nhead = (1 if exp_m is not None else 0) + (1 if (exp_u is not None and loc == "line") else 0)
    head, recs = rows[:nhead], rows[nhead:]
    kinds, ok = [], True
    hi = 0
    if exp_m is not None:
        if loc in ("[]", "()") and exp_u is not None:
            kinds.append("m" + loc)
            import re as _re
            ok = ok and hi < len(head) and len(head[hi]) == min(len(exp_m), len(exp_u)) and all(
                _re.fullmatch(_re.escape(str(m)) + r"\s*" + _re.escape(loc[0]) + _re.escape(str(u)) + _re.escape(loc[1]), cell)
                for cell, m, u in zip(head[hi], exp_m, exp_u))
        else:
            kinds.append("m")
            ok = ok and hi < len(head) and head[hi] == [str(m) for m in exp_m]
        hi += 1
    if exp_u is not None and loc == "line":
        kinds.append("u")
        ok = ok and hi < len(head) and head[hi] == [str(u) for u in exp_u]
    ev["header_kinds"] = kinds
    ev["header_cells_ok"] = bool(ok)
    ev["nrows"] = int(data.shape[0])
    ev["nrecords"] = len(recs)
    vals = len(recs) == data.shape[0]
    if vals:
        for i, rec in enumerate(recs):
            vals = vals and len(rec) == data.shape[1] and all(same(data[i, j], rec[j] if rec[j] != "nan" else float("nan"))
                                                              for j in range(data.shape[1]))
    ev["values_ok"] = bool(vals)
    return ev


def xlsx_event(name, las, path):
    import openpyxl
    ev = {"op": "xlsx", "obj": name, "exc": "", "has_text_curve": any(np.asarray(c.data).dtype.kind in "USO" for c in las.curves),
          "secs": {k: [it.mnemonic for it in list.__iter__(las.sections[k])] for k in ("Version", "Well", "Parameter", "Curves")},
          "header_rows": [], "header_fields_ok": False, "curves_ok": False}
    try:
        las.to_excel(path)
        wb = openpyxl.load_workbook(path)
    except Exception as e:
        ev["exc"] = "%s: %s" % (type(e).__name__, str(e)[:80])
        return ev
    finally:
        if os.path.exists(path):
            os.remove(path)
    hs = wb["Header"]
    rows = list(hs.iter_rows(min_row=2, values_only=True))
    items = [it for k in ("Version", "Well", "Parameter", "Curves") for it in list.__iter__(las.sections[k])]
    labels = [k for k in ("Version", "Well", "Parameter", "Curves") for it in list.__iter__(las.sections[k])]
    # the sheet must list every item in order; the label spelling and whether the session or the original mnemonic is shown
    # are not specified: rows are normalised to <<"~Section", session mnemonic>> when they are acceptable
    norm = []
    for i, r in enumerate(rows):
        lab = str(r[0] or "").lstrip("~")
        mn = "" if r[1] is None else str(r[1])
        if i < len(items) and lab[:1].upper() == labels[i][:1] and mn in (items[i].mnemonic, items[i].original_mnemonic):
            norm.append(["~" + labels[i], items[i].mnemonic])
        else:
            norm.append([str(r[0]), mn])
    ev["header_rows"] = norm
    ok = len(items) == len(rows)
    if ok:
        for it, r in zip(items, rows):
            def cell(x):
                return "" if x is None else x
            v = it.value
            vv = r[3]
            okv = (vv is None or vv == "") if (v is None or v == "" or (isinstance(v, float) and v != v)) else same(v, vv)
            ok = ok and cell(r[2]) == it.unit and okv and cell(r[4]) == it.descr
    ev["header_fields_ok"] = bool(ok)
    cs = wb["Curves"]
    crow = list(cs.iter_rows(values_only=True))
    ok = len(crow) >= 1 or len(las.curves) == 0
    if len(las.curves):
        ok = ok and [("" if x is None else str(x)) for x in crow[0]][:len(las.curves)] == [c.mnemonic for c in las.curves]
        for j, c in enumerate(las.curves):
            for i, x in enumerate(c.data):
                y = crow[i + 1][j] if i + 1 < len(crow) and j < len(crow[i + 1]) else "<missing>"
                if isinstance(x, (float, np.floating)) and x != x:
                    ok = ok and (y is None or y == "")
                else:
                    ok = ok and y is not None and same(x, y)
    ev["curves_ok"] = bool(ok)
    return ev


def df_event(name, mk):
    las = mk()
    ev = {"op": "df", "obj": name, "exc": "", "index_ok": False, "columns": [], "keys": list(las.keys()), "values_ok": False,
          "rt_names": [], "names_expected": [], "rt_values_ok": False}
    try:
        df = las.df()
    except Exception as e:
        ev["exc"] = "%s: %s" % (type(e).__name__, str(e)[:80])
        return ev
    ev["columns"] = [str(c) for c in df.columns]
    idx = las.index
    ev["index_ok"] = len(df.index) == len(idx) and all(same(a, b) for a, b in zip(idx, df.index.values)) and df.index.name == las.curves[0].mnemonic
    ok = True
    for j, c in enumerate(list.__iter__(las.curves)):
        if j == 0:
            continue
        col = df.iloc[:, j - 1].values
        ok = ok and len(col) == len(c.data) and all(same(a, b) for a, b in zip(c.data, col))
        if np.asarray(c.data).dtype.kind == "f":
            # "equal values": the samples of a float curve are numbers in the frame as well, not their spellings
            ok = ok and all(isinstance(b, (int, float, np.integer, np.floating)) and not isinstance(b, (bool, np.bool_)) for b in col)
    ev["values_ok"] = bool(ok)
    las2 = mk()
    before = [np.array(c.data) for c in list.__iter__(las2.curves)]
    ev["names_expected"] = list(las2.keys())
    try:
        las2.set_data_from_df(las2.df())
        ev["rt_names"] = list(las2.keys())
        ev["rt_values_ok"] = len(before) == len(las2.curves) and all(
            len(a) == len(c.data) and all(same(x, y) for x, y in zip(a, c.data)) for a, c in zip(before, list.__iter__(las2.curves)))
    except Exception as e:
        ev["rt_names"] = ["EXC:" + type(e).__name__]
    return ev


def unit_event(classes, rng):
    us = [rng.choice(SPELL[c]) for c in classes]
    text = ("~V\nVERS. 2.0:\nWRAP. NO:\n~W\nSTRT  .%s 100:\nSTOP  .%s 200:\nSTEP  .%s 50:\nNULL. -999.25:\n~C\nDEPT  .%s:\nGR.:\n~A\n100 1\n150 2\n200 3\n"
            % tuple(us))
    if rng.random() < 0.5:
        # the LASFile object was used before, for a file with other units (a second read() into the same object): what is
        # recognised is a function of the file read last
        las = lasio.LASFile()
        las.read(io.StringIO(("~V\nVERS. 2.0:\nWRAP. NO:\n~W\nSTRT  .%s 100:\nSTOP  .%s 200:\nSTEP  .%s 50:\nNULL. -999.25:\n~C\nDEPT  .%s:\nGR.:\n~A\n"
                              "100 1\n150 2\n200 3\n") % tuple(rng.choice(SPELL[c]) for c in rng.choice(list(DECOYS)))))
        las.read(io.StringIO(text))
        if [las.well["STRT"].unit, las.well["STOP"].unit, las.well["STEP"].unit, las.curves[0].unit] != us or len(las.curves) != 2:
            las = lasio.read(text)          # (a second read that does not replace the header is not this clause's business)
    else:
        las = lasio.read(text)
    iu = las.index_unit
    ev = {"op": "unit", "classes": list(classes), "spelled": us, "index_unit": "none" if iu is None else str(iu),
          "depth_defined": False, "m_equals_ft_times_03048": False}
    try:
        m, ft = las.depth_m, las.depth_ft
        ev["depth_defined"] = True
        ev["m_equals_ft_times_03048"] = bool(np.allclose(m, ft * 0.3048, rtol=1e-15 * 8, atol=0))
        # and they are anchored to the index for the recognised unit
        if iu == "M":
            ev["m_equals_ft_times_03048"] = ev["m_equals_ft_times_03048"] and bool(np.array_equal(m, las.index))
        if iu == "FT":
            ev["m_equals_ft_times_03048"] = ev["m_equals_ft_times_03048"] and bool(np.array_equal(ft, las.index))
        if iu == ".1IN":
            ev["m_equals_ft_times_03048"] = ev["m_equals_ft_times_03048"] and bool(np.allclose(ft * 120, las.index, rtol=1e-14))
    except Exception:
        pass
    return ev


def run(ctx):
    rng = random.Random(ctx.seed)
    thorough = ctx.tier == "thorough"
    cfg = "SPECIFICATION Spec\nCONSTANTS\n  Emit = TRUE\nCONSTRAINT EmitInst\nINVARIANT TableSane\nCHECK_DEADLOCK FALSE\n"
    r = ctx.model_check("ViewsCheck", cfg, label="ViewsCheck: unit decision table and csv option product", workers=2)
    insts = r.printed_json()
    units = [i for i in insts if i["kind"] == "unit"]
    csvs = [i for i in insts if i["kind"] == "csv"]
    ctx.exhaustive = True
    events, meta = [], []
    for u in sorted(units, key=lambda x: x["classes"]):
        for rep in range(6 if thorough else 2):
            events.append(unit_event(u["classes"], rng))
            meta.append({"unit_classes": u["classes"]})
            ctx.evaluations += 1
            ctx.case(["unit", u["classes"], events[-1]["spelled"]])
    work = tlc.scratch("c18")
    kws = [{}, {"delimiter": ";"}, {"lineterminator": "\r\n"}, {"quoting": csv.QUOTE_ALL}, {"delimiter": "\t", "quoting": csv.QUOTE_NONNUMERIC}]
    for name, mk in objects(rng, thorough):
        las = mk()
        events.append(json_event(name, las))
        meta.append({"object": name, "export": "json"})
        ctx.evaluations += 1
        ctx.case(["json", name])
        if len(las.curves):
            for c in sorted(csvs, key=lambda x: (x["mn"], x["un"], x["loc"])):
                for kw in (kws if thorough else [kws[0], rng.choice(kws[1:])]):
                    events.append(csv_event(name, mk(), c["mn"], c["un"], c["loc"], kw))
                    meta.append({"object": name, "export": "csv", "options": [c["mn"], c["un"], c["loc"], {k: repr(v) for k, v in kw.items()}]})
                    ctx.evaluations += 1
                    ctx.case(["csv", name, c["mn"], c["un"], c["loc"], sorted(kw)])
            events.append(df_event(name, mk))
            meta.append({"object": name, "export": "df"})
            ctx.evaluations += 1
            ctx.case(["df", name])
        if name in ("non-finite", "read-overflow"):
            continue        # the xlsx number format has no infinities (openpyxl stores an error cell) - outside the statement
        events.append(xlsx_event(name, mk(), os.path.join(work, "out.xlsx")))
        meta.append({"object": name, "export": "xlsx"})
        ctx.evaluations += 1
        ctx.case(["xlsx", name])
    slim = [[{k: v for k, v in e.items() if k not in ("kw", "spelled", "error")}] for e in events]
    fails, _ = ctx.validate("Trace_Views", {"traces": slim})
    for tid, l, clause in fails:
        ev = events[tid]
        ctx.report(clause, "%s %s" % (meta[tid], {k: v for k, v in ev.items() if k in ("exc", "error", "index_unit", "spelled", "header_kinds",
                                                                                      "nrecords", "nrows", "rt_names", "columns")}),
                   {"meta": meta[tid], "event": ev})
    ctx.sample({"unit": events[5]})
    ctx.sample({"csv": [e for e in events if e["op"] == "csv"][3]})
    ctx.assumptions += [
        "infinite samples and header values (only reachable through the API or an overflowing literal) are exported to JSON (null, "
        "the only strict spelling), CSV and df(); they are not exported to Excel, whose number format cannot hold them",
        "to_csv options restricted to the documented ones: mnemonics/units True, False or lists of the right length; units_loc in "
        "{'line', '[]', '()'}; csv kwargs delimiter / lineterminator / quoting",
        "index units: members of the recognised sets in any case and clearly foreign units (no substrings of recognised names)",
        "a LASFile() without any curve is exercised for JSON and Excel only (to_csv / df() of an object without curves are not claimed)",
        "float equality after a text round trip by float(); depth_m = depth_ft x 0.3048 within 8e-15 relative",
    ]
    return ctx.finish(RULE)
