"""C09 - reading is invariant under presentation-only changes of the text."""
import glob
import json
import os
import random
import re

from harness import channels, core, lastext, tlc

import lasio

RULE = ("design level: Presentation.tla (TLC) -- inserting blank/comment lines anywhere except inside ~Other and re-wrapping WRAP=YES "
        "data never change LasRead!Read (the variant that also inserts into ~Other is shown to violate it); spec->code: every text "
        "reachable by <= MaxSteps transformations from the base texts (space / wrapped / COMMA / TAB delimited) is concretised with "
        "a fresh draw of all concretiser choices (spacing, number and NULL spelling, title style of standard sections, LF/CRLF, "
        "final newline, delimiter padding; number spellings are kept) and must give the same complete result as its base; it is also validated against "
        "LasRead!Read; code->spec: the 1.2/2.0 example corpus and lasio's own writer output under seeded compositions of concrete "
        "transformations at sites chosen over the whole file, validated by Trace_Presentation.  Distinct by (base, operations).")


def digest_of(text, **kw):
    try:
        las = lasio.read(text, **kw)
    except Exception as e:
        return "EXC"
    return channels.digest(las)[0]


def kinds_of(lines):
    out, sec = [], "none"
    for ln in lines:
        s = ln.strip()
        if s.startswith("~"):
            sec = s[1:2].upper() or "?"
        out.append(sec)
    return out


def transform(text, rng, wrapped, ncurves, dlm):
    """Apply a seeded composition of concrete presentation-only transformations; returns (new text, ops)."""
    nl = "\r\n" if "\r\n" in text else "\n"
    final = text.endswith(nl)
    lines = text.split(nl)
    if final:
        lines = lines[:-1]
    kinds = kinds_of(lines)
    ops = []
    inserts = {}
    for _ in range(rng.randint(0, 6)):
        at = rng.randint(0, len(lines))
        if at > 0 and kinds[at - 1] == "O":
            continue
        if at == 0 or kinds[at - 1] == "none":
            continue        # keep the first section title the first content line
        what = rng.choice(["blank", "comment"])
        inserts.setdefault(at, []).append(what)
        ops.append({"op": what, "at": at})
    newlines = []
    do_pad = rng.random() < 0.6
    do_rewrap = wrapped and rng.random() < 0.7 and dlm == "SPACE"
    data_tokens = []
    for i, ln in enumerate(lines):
        sec = kinds[i]
        body = ln
        if do_pad and not ln.strip().startswith("~") and sec not in ("none",):
            if sec == "A":
                if dlm == "SPACE" and '"' not in ln and "'" not in ln:
                    if ln.strip() and not ln.strip().startswith("#"):
                        body = rng.choice(["", " ", "   "]) + rng.choice([" ", "  ", "\t", "    "]).join(ln.split()) + rng.choice(["", "  "])
            elif sec != "O" and ln.strip() and not ln.strip().startswith("#"):
                body = rng.choice(["", " ", "  "]) + ln + rng.choice(["", "  ", " \t"])
        if do_rewrap and sec == "A" and not ln.strip().startswith("~"):
            if ln.strip() and not ln.strip().startswith("#"):
                data_tokens += ln.split()
            continue
        newlines.append(body)
        for what in inserts.get(i + 1, []):
            if do_rewrap and sec == "A":
                continue
            newlines.append("" if what == "blank" else rng.choice(["# inserted comment", "#", "   # inserted, indented"]))
    if do_pad:
        ops.append({"op": "pad", "at": 0})
    if do_rewrap and ncurves > 0 and len(data_tokens) % ncurves == 0:
        per = rng.randint(1, ncurves)
        ops.append({"op": "rewrap", "at": per})
        # the data section is the last one in every wrapped corpus file handled here
        for r in range(len(data_tokens) // ncurves):
            row = data_tokens[r * ncurves:(r + 1) * ncurves]
            for q in range(0, ncurves, per):
                newlines.append(" " + "  ".join(row[q:q + per]))
        ops = [o for o in ops if not (o["op"] in ("blank", "comment") and kinds[o["at"] - 1] == "A")]
    elif do_rewrap:
        return None, None
    newnl = nl
    if rng.random() < 0.5:
        newnl = "\r\n" if nl == "\n" else "\n"
        ops.append({"op": "crlf" if newnl == "\r\n" else "cr2lf", "at": 0})
    out = newnl.join(newlines)
    if final and rng.random() < 0.7:
        out += newnl
    else:
        ops.append({"op": "nofinalnl", "at": 0})
    return out, ops, kinds


def corpus_texts():
    files = sorted(glob.glob(os.path.join(core.REPO, "tests", "examples", "*.las")))
    for sub in ("1.2", "2.0"):
        files += sorted(glob.glob(os.path.join(core.REPO, "tests", "examples", sub, "*.las")))
    for fn in files:
        try:
            raw = open(fn, "rb").read()
        except IOError:
            continue
        if len(raw) > 200000 or len(raw) == 0:
            continue
        try:
            text = raw.decode("utf-8")
        except UnicodeDecodeError:
            continue
        if "\r" in text.replace("\r\n", ""):
            continue
        if "~Log_" in text or "_Data" in text or "\x1a" in text:
            continue
        yield fn, text


def run(ctx):
    rng = random.Random(ctx.seed)
    thorough = ctx.tier == "thorough"
    base_cfg = ("SPECIFICATION Spec\nCONSTANTS\n  MaxSteps = %d\n  StrictOther = %s\n  Emit = %s\nCONSTRAINT EmitText\n"
                "INVARIANT PresentationOnly\nINVARIANT StaysLegal\nVIEW View\nCHECK_DEADLOCK FALSE\n")
    r = ctx.model_check("Presentation", base_cfg % (3 if thorough else 2, "TRUE", "TRUE"),
                        label="Presentation: PresentationOnly and StaysLegal", workers=16, timeout=3000)
    texts = r.printed_json()
    texts.sort(key=lambda t: json.dumps(t, sort_keys=True))
    r2 = tlc.run("Presentation", base_cfg % (1, "FALSE", "FALSE"), workers=2, allow_violation=True)
    ctx.extra["inserting_into_other_is_not_presentation_only"] = (r2.violation == "PresentationOnly")
    if r2.violation != "PresentationOnly":
        raise tlc.MachineryError("Presentation without the ~Other restriction should violate PresentationOnly")
    bases = {}
    for t in texts:
        if not t["ops"]:
            bases[t["base"]] = t["text"]
    limit = 250000 if thorough else 1200          # (memory: every text is concretised twice and read four times)
    ctx.exhaustive = len(texts) <= limit
    if len(texts) > limit:
        texts = [texts[i] for i in sorted(rng.sample(range(len(texts)), limit))]
    events, meta, pairs, pmeta = [], [], [], []
    opts = {"null_policy": "strict", "ihe": False}
    for t in texts:
        btext = bases[t["base"]]
        fixed = {"title": {"X1": rng.choice(lastext.TITLES["X1"])}, "names": rng.choice(["std", "lower"]),
                 "null": rng.choice(["std", "int", "five"]), "spell_seed": rng.random(),
                 "neg": rng.random() < 0.4}        # every number negative: a hyphen on every data line, whatever the delimiter
        c0 = lastext.concretise(btext, rng, dict(fixed))
        c1 = lastext.concretise(t["text"], rng, dict(fixed))
        eng = rng.choice(["numpy", "normal"])
        # the default read policy spelled out as a list must mean the same (for a COMMA file lasio swaps in its comma policy)
        rp = {"read_policy": ["comma-decimal-mark", "run-on(-)", "run-on(.)"]} if rng.random() < 0.3 else {}
        ev = lastext.read_event("C09", {"text": t["text"], "opts": opts}, c1, engines=(eng,), names=fixed["names"], null=fixed["null"],
                                extra_kw=rp or None)
        events.append(ev)
        meta.append({"tag": [t["base"], t["ops"]], "concrete": c1, "engine": eng, "read_kw": rp})
        d0, d1 = digest_of(c0, engine=eng, **rp), digest_of(c1, engine=eng, **rp)
        kinds = [ln.get("sec", "") for ln in btext]     # section letter per base line
        sec = "none"
        kinds = []
        for ln in btext:
            if ln["k"] == "title":
                sec = ln["sec"]
            kinds.append(sec)
        pairs.append({"op": "pair", "kinds": kinds, "wrapped": any(ln["k"] == "item" and ln["m"] == "WRAP" and ln["v"] == "YES"
                                                                   for ln in btext),
                      "ops": [{"op": "respell", "at": 0}], "d0": d0, "d1": d1})
        pmeta.append({"tag": [t["base"], t["ops"]], "base": c0, "transformed": c1, "engine": eng})
        ctx.evaluations += 3
        ctx.case([t["base"], t["ops"]])
    # recorded finding D34: a text column under a declared COMMA / TAB delimiter, unpadded vs padded delimiters
    for b, btext in sorted(bases.items()):
        dl = [ln for ln in btext if ln["k"] == "item" and ln["m"] == "DLM"]
        if not dl or not any(ln["k"] == "data" and any(c["cls"] == "TEXT" for c in ln["cells"]) for ln in btext):
            continue
        for rep in range(3):
            fixed = {"names": "std", "null": "std", "spell_seed": rng.random(), "nl": "\n", "final_nl": True, "plain": True}
            c0 = lastext.concretise(btext, random.Random(rep), dict(fixed))
            c1 = lastext.concretise(btext, random.Random(rep), dict(fixed, padtext=True))
            kinds, sec = [], "none"
            for ln in btext:
                if ln["k"] == "title":
                    sec = ln["sec"]
                kinds.append(sec)
            pairs.append({"op": "pair", "kinds": kinds, "wrapped": False, "ops": [{"op": "delimpad-text", "at": 0}],
                          "d0": digest_of(c0), "d1": digest_of(c1)})
            pmeta.append({"tag": [b, "delimpad-text"], "base": c0, "transformed": c1})
            ctx.evaluations += 2
            ctx.case(["delimpad-text", b, rep])
    # code -> spec: corpus and writer output
    sources = []
    for fn, text in corpus_texts():
        sources.append((fn.replace(core.REPO, ""), text))
    for fn, text in list(sources):
        try:
            import io
            las = lasio.read(text)
            s = io.StringIO()
            las.write(s, wrap=False)
            sources.append((fn + "#rewritten", s.getvalue()))
            s = io.StringIO()
            las.write(s, wrap=True)
            sources.append((fn + "#rewritten-wrapped", s.getvalue()))
        except Exception:
            continue
    reps = 12 if thorough else 2
    skipped = 0
    for fn, text in sources:
        try:
            base = lasio.read(text)
        except Exception:
            skipped += 1
            continue
        wrapped = str(base.version["WRAP"].value).upper() == "YES" if "WRAP" in base.version else False
        dlm = str(base.version["DLM"].value).upper() if "DLM" in base.version else "SPACE"
        ncurves = len(base.curves)
        if any(c.data.dtype.kind not in "fiu" for c in base.curves):
            dlm = "TEXT"            # quoted / textual data: no re-spacing, no re-wrapping
        d0 = channels.digest(base)[0]
        for rep in range(reps):
            res = transform(text, rng, wrapped, ncurves, dlm)
            if res[0] is None:
                continue
            new, ops, kinds = res
            d1 = digest_of(new)
            pairs.append({"op": "pair", "kinds": kinds, "wrapped": wrapped, "ops": ops, "d0": d0, "d1": d1})
            pmeta.append({"file": fn, "ops": ops, "transformed": new if len(new) < 6000 else new[:6000]})
            ctx.evaluations += 1
            ctx.case([fn, ops])
    ctx.extra["corpus_sources"] = len(sources)
    ctx.extra["corpus_unreadable_skipped"] = skipped
    fails, _ = ctx.validate("Trace_Read", {"traces": [[e] for e in events]})
    lastext.judge(ctx, events, meta, fails)
    fails, _ = ctx.validate("Trace_Presentation", {"traces": [[p] for p in pairs]})
    for tid, l, clause in fails:
        if clause.startswith("Harness."):
            raise tlc.MachineryError("harness applied a transformation where it is not enabled: %s" % (pmeta[tid],))
        ctx.report(clause, "%s" % {k: v for k, v in pmeta[tid].items() if k not in ("base", "transformed")},
                   {"meta": pmeta[tid], "event": pairs[tid]})
    ctx.sample({"tag": meta[len(meta) // 2]["tag"], "concrete": meta[len(meta) // 2]["concrete"]})
    ctx.sample({"corpus_pair": {k: v for k, v in pmeta[-1].items() if k != "transformed"}})
    ctx.assumptions += ["LAS 3.0 samples, files lasio cannot read, files with CR-only line ends or ^Z are skipped",
                        "the title of a custom section is content (it is the section's key), so it is kept fixed",
                        "data lines are re-spaced / re-wrapped only in files with numeric, blank-delimited data",
                        "blank lines are not inserted before the first section title nor inside ~Other"]
    return ctx.finish(RULE)
