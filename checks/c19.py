"""C19 - ignore_header_errors makes header parsing tolerant and non-interfering."""
import random
import string

from harness import core, lastext, tlc

RULE = ("spec->code: junk lines inserted at every site of ~V, ~W, ~P and a custom section of a base text (ReadInstances family "
        "C19: one or two junk lines, with and without the flag), the junk text drawn from a pool (no delimiters, only punctuation, "
        "quotes, very long, digits) and from seeded random printable ASCII; read with real lasio; Trace_Read requires: with the "
        "flag no exception, genuine items kept in order with all four fields, data equal; without it only LASHeaderError naming a "
        "junk line.  Distinct by (insertion sites, junk text).")

STEER = ("VERS", "WRAP", "DLM", "NULL")


def random_junk(rng):
    kind = rng.random()
    if kind < 0.3:
        n = rng.randint(1, 30)
        s = "".join(rng.choice(string.punctuation.replace("~", "") + "  ") for _ in range(n))
    elif kind < 0.6:
        n = rng.randint(1, 40)
        s = "".join(rng.choice(string.ascii_letters + string.digits + string.punctuation + "   ") for _ in range(n))
    elif kind < 0.8:
        s = rng.choice([".", ":", "..", "::", ". :", ":.", " . ", "\"", "'", "\"\"", ".:.:.:", "a.b.c:d:e", ":x.y", "...:"])
    else:
        s = rng.choice(["A" * 2000, "x.y " + "z" * 1500 + " : w", "12 34 56", "-999.25", "1e400 1e-400"])
    return s


def in_domain(s):
    t = s.strip()
    if not t or t.startswith("~") or t.startswith("#"):
        return False
    # the line must not name a steering mnemonic (as the line grammar would read it)
    head = t.lstrip(".").split(".")[0].split(":")[0].strip().upper()
    return head not in STEER and not any(k in t.upper() for k in STEER)


def run(ctx):
    rng = random.Random(ctx.seed)
    thorough = ctx.tier == "thorough"
    insts = lastext.instances(ctx, "C19", 2, 2, 2, thorough)
    ctx.exhaustive = False
    events, meta = [], []
    reps = 40 if thorough else 6
    for inst in insts:
        for rep in range(reps):
            # junk ids beyond the pool are filled with seeded random printable ASCII
            for k in range(20, 23):
                j = random_junk(rng)
                while not in_domain(j):
                    j = random_junk(rng)
                lastext.JUNK[k] = j
            same = rng.choice([13, 16, 17, 20]) if rep % 3 == 2 else None     # the same (parseable) junk line more than once
            text = [dict(ln, id=(same or rng.choice([1, 2, 3, 4, 5, 6, 7, 8, 9, 10, 11, 12, 13, 14, 15, 16, 17, 20, 21, 22]) if rep else ln["id"]))
                    if ln["k"] == "junk" else ln for ln in inst["text"]]
            inst2 = dict(inst, text=text)
            concrete = lastext.concretise(text, rng, {"plain": rep % 2 == 0})
            ev = lastext.read_event("C19", inst2, concrete, engines=("numpy",))
            events.append(ev)
            meta.append({"tag": inst["tag"], "flag": inst["opts"]["ihe"], "concrete": concrete})
            ctx.evaluations += 1
            ctx.case([inst["tag"], [lastext.JUNK[ln["id"]] for ln in text if ln["k"] == "junk"]])
    fails, _ = ctx.validate("Trace_Read", {"traces": [[e] for e in events]})
    lastext.judge(ctx, events, meta, fails)
    ctx.extra["exceptions_without_flag"] = sum(1 for e in events if e["exc"])
    ctx.sample({"tag": meta[3]["tag"], "concrete": meta[3]["concrete"], "exc": events[3]["exc"]})
    ctx.assumptions += ["junk lines do not start with '~' or '#', are not blank, and contain none of the steering names "
                        "VERS/WRAP/DLM/NULL; ~C is excluded (any parsable line legitimately declares a curve)",
                        "a junk line that happens to parse may add at most itself as one extra item"]
    return ctx.finish(RULE)
