"""C11 - lasio's own output is a fixed point of read->write."""
import glob
import io
import os
import random

from harness import core, roundtrip, tlc
from checks.c09 import corpus_texts

import lasio

RULE = ("code->spec: every readable input (the 1.2/2.0 example corpus; generated files with duplicated and blank mnemonics, .1IN and "
        "other odd units, empty values, long fields, text and NaN samples, 1.2 layout; seeded mutations of both) is taken through "
        "read -> (write, re-read)^k with k = 3..4 for every writer option set of the table (WriteInstances family C12 enumerates "
        "them); the canonical content digests (header numbers compared numerically) of re-read 1..k are validated by "
        "Trace_RoundTrip: all equal to the first re-read.  Distinct by (input, option set).")

GEN = [
    "~V\nVERS. 2.0:\nWRAP. NO:\n~W\nSTRT.M 1:\nSTOP.M 3:\nSTEP.M 1:\nNULL. -999.25:\nWELL. x:\n~C\nDEPT.M:\nGR.:\nGR.:\n.:\n~P\nA. 1:\nA. 2:\n. 3:\n~A\n1 10 20 30\n2 -999.25 21 31\n3 12 22 32\n",
    "~V\nVERS. 2.0:\nWRAP. NO:\n~W\nSTRT  ..1IN 120:\nSTOP  ..1IN 360:\nSTEP  ..1IN 120:\nNULL. -999.25:\n~C\nDEPT  ..1IN 00 001 00 00: depth\nGR.gAPI 07 310 01 00: gamma\n~A\n120 1\n240 2\n360 3\n",
    "~V\nVERS. 2.0:\nWRAP. NO:\n~W\nSTRT  ..1IN 120:\nSTOP  ..1IN 360:\nSTEP  ..1IN 120:\nNULL. -999.25:\n~C\nTDEP ..1IN 00 001 00 00:\nGR.:\n~P\nX ..5MM 12.5: dotted unit, widest item\n~A\n120 1\n240 2\n360 3\n",
    "~V\nVERS. 2.0:\nWRAP. NO:\n~W\nSTRT.M 1:\nSTOP.M 2:\nSTEP.M 1:\nNULL. -999.25:\n~C\nDEPT.M:\nA.B.C.unit.with.dots 12: name with dots\nGR..: empty after double dot\n~A\n1 1 2\n2 3 4\n",
    "~V\nVERS. 1.2: old\nWRAP. NO:\n~W\nSTRT.FT 100.0: start\nSTOP.FT 101.0: stop\nSTEP.FT 0.5: step\nNULL. -9999: null\nCOMP. COMPANY: ACME & co\nWELL. WELL: 15_9-F-1\nUWI. UNIQUE WELL ID: 00123456789\n~C\nDEPT.FT : d\nRES.OHMM : r\n~P\nBHT.DEGF 180.5 : bottom hole\nEMPTY.u : empty with unit\n~O\nnotes line\n~A\n100.0 1.5\n100.5 -9999\n101.0 2.5\n",
    "~V\nVERS. 2.0:\nWRAP. YES:\n~W\nSTRT.M 10:\nSTOP.M 20:\nSTEP.M 10:\nNULL. -999.25:\n~C\nDEPT.M:\nA.:\nB.:\nC.:\nD.:\nE.:\nF.:\nG.:\n~A\n10\n1 2 3 4\n5 6 7\n20\n8 9 10 11\n12 13 14\n",
    "~V\nVERS. 2.0:\nWRAP. NO:\n~W\nSTRT.M 1:\nSTOP.M 2:\nSTEP.M 1:\nNULL. 0:\nLONG. " + "v" * 90 + " : " + "d" * 70 + "\n~C\nDEPT.M:\nVERYLONGMNEMONICNAME.verylongunit 12 34 : x\n~P\nP.unit  : empty value with unit\nQ. : all empty\n~A\n1 5\n2 0\n",
    "~V\nVERS. 2.0:\nWRAP. NO:\n~W\nSTRT.S 0.000001:\nSTOP.S 0.000003:\nSTEP.S 0.000001:\nNULL. -999.25:\n~C\nTIME.S:\nAMP.:\n~A\n0.000001 1e-7\n0.000002 123456789.123456789\n0.000003 -0.1\n",
]
GEN.append("~V\nVERS. 2.0:\nWRAP. NO:\n~W\nSTRT.M 1:\nSTOP.M 2:\nSTEP.M 1:\nNULL. -999.25:\n~C\nDEPT.M:\nGR.:\n~P\nA.100   5 : numeric unit, widest item\n~A\n1 1\n2 2\n")
GEN.append("~V\nVERS. 2.0:\nWRAP. NO:\n~W\nSTRT.M 1:\nSTOP.M 2:\nSTEP.M 1:\nNULL. -999.25:\nRIG.1000 lbf 25.5 : numeric unit with suffix\n~C\nDEPT.M:\nGR.2   07 : numeric unit in ~C\n~A\n1 1\n2 2\n")
GEN.append("~V\nVERS. 2.0:\nWRAP. NO:\n~W\nSTRT.M 1:\nSTOP.M 120:\nSTEP.M 1:\nNULL. -999.25:\nLONG. " + "w" * 400 + " : " + "d" * 400 + "\n~C\nDEPT.M:\n"
           + "".join("C%d.:\n" % j for j in range(1, 45)) + "~A\n" + "".join(" ".join(str(r + j * 0.5) for j in range(45)) + "\n" for r in range(1, 121)))
GEN.append("~V\nVERS. 2.0:\nWRAP. NO:\n~W\nSTRT.M 1:\nSTOP.M 2:\nSTEP.M 1:\nNULL. -999.25:\n~C\nDEPT.M:\n" + "GR.:\n" * 12 + "~P\n" + "RUN. 1: r\n" * 11
           + "~A\n1 " + " ".join(str(j) for j in range(12)) + "\n2 " + " ".join(str(j + 0.5) for j in range(12)) + "\n")
# input alphabet: units ending in several periods, format characters and braces, mixed-case NULL in a 1.2 file, text curves with
# hyphenated words next to many numeric columns (wrapping), Unicode that a normalisation would change
GEN.append("~V\nVERS. 2.0:\nWRAP. NO:\n~W\nSTRT.M 1:\nSTOP.M 2:\nSTEP.M 1:\nNULL. -999.25:\nTPL. {0} : format {} %s %(x)d {\nGUID.% {WELL_NAME} : PL{}/7\n"
           "~C\nDEPT.M:\nGR.:\n~P\nRES.ohm.m... 5 : three trailing periods\nR2.ohm.. 6 : two\nKB.ft(KB) 12.5 : bracket\nFRC.(lbf)/ft 3 : bracket first\n"
           "OHM.\u2126 7 : ohm sign, e\u0301 combining\n~A\n1 1\n2 2\n")
GEN.append("~V\nVERS. 1.2: old\nWRAP. NO:\n~W\nSTRT.M 1.0: first\nSTOP.M 3.0: last\nSTEP.M 1.0: inc\nNull. -999.25: nul\nComp. the company: ACME\n"
           "Well. the well: W-1\n~C\nDEPT.M: d\nGR.: g\n~A\n1 10\n2 -999.25\n3 30\n")
GEN.append("~V\nVERS. 2.0:\nWRAP. NO:\n~W\nSTRT.M 1:\nSTOP.M 3:\nSTEP.M 1:\nNULL. -999.25:\n~C\nDEPT.M:\n" + "".join("C%d.:\n" % j for j in range(1, 7))
           + "LITH.:\nC8.:\n~A\n" + "".join("%d " % r + " ".join("%d.25" % (r * 10 + j) for j in range(1, 7)) + " %s %d.5\n" % (w, r)
                                            for r, w in ((1, "SAND-SHALE"), (2, "SHALE"), (3, "LIME-DOLO-MIX"))))
GEN.append("~V\nVERS. 2.0:\nWRAP. NO:\n~W\nSTRT.M 1:\nSTOP.M 2:\nSTEP.M 1:\nNULL. -999.25:\n~C\nDEPT.M:\nGR.:\n~P\n"
           "BS  .8.5     216 : a decimal number as unit, widest item of its section\nRM.0.5 2 : another\n~A\n1 1\n2 2\n")
for _w in ("EGL.FEETABOVEMEANSEALEVEL  : an empty value with a unit, widest item of its section", "TPL. {0} : plain description", "BRC. x : a lone { brace", "SET. {a,b} : {c}", "PCT. 50% : %s %d %(x)s 100%",
           "GUID. {WELL_NAME} : registry format", "ESC. C\\data\\new : back\\slashes \\n \\t"):
    GEN.append("~V\nVERS. 2.0:\nWRAP. NO:\n~W\nSTRT.M 1:\nSTOP.M 2:\nSTEP.M 1:\nNULL. -999.25:\n" + _w + "\n~C\nDEPT.M:\nGR.:\n~A\n1 1\n2 2\n")
GEN.append("~V\nVERS. 2.0:\nWRAP. NO:\nDLM. COMMA: declared delimiter\n~W\nSTRT.M 1:\nSTOP.M 3:\nSTEP.M 1:\nNULL. -999.25:\n~C\nDEPT.M:\nZONE.:\nGR.:\n~A\n"
           "1.0,pick gamma,5.5\n2.0,shale,-999.25\n3.0,lime stone bed,7.5\n")
GEN.append("~V\nVERS. 2.0:\nWRAP. NO:\n~W\nSTRT.M 1.0: first\nSTOP.M 4.5: last\nSTEP.  : irregular spacing, no unit and no value\nNULL. -999.25:\n"
           "~C\nDEPT.M: index with a unit\nGR.:\n~A\n1.0 10\n2.0 20\n4.5 30\n")
_WORDS = ["SAND-SHALE", "A-B", "LIME-DOLO-MIX", "X-Y-Z-W", "SILT", "COAL-1"]
GEN.append("~V\nVERS. 2.0:\nWRAP. NO:\n~W\nSTRT.M 1:\nSTOP.M 4:\nSTEP.M 1:\nNULL. -999.25:\n~C\nDEPT.M:\n"
           + "".join("N%d.:\nT%d.:\n" % (j, j) for j in range(1, 7)) + "~A\n"
           + "".join("%d " % r + " ".join("%d.5 %s" % (r * 10 + j, _WORDS[(r + j) % 6]) for j in range(1, 7)) + "\n" for r in range(1, 5)))
# tall data blocks: row counts at and around the block sizes a buffered writer or reader might use (3 and 17 curves)
for _r in (256, 257, 1000, 1001, 2003, 2048, 4097):
    for _c in (3, 17):
        GEN.append("~V\nVERS. 2.0:\nWRAP. NO:\n~W\nSTRT.M 1:\nSTOP.M %d:\nSTEP.M 1:\nNULL. -999.25:\n~C\nDEPT.M:\n" % _r
                   + "".join("C%d.:\n" % j for j in range(1, _c)) + "~A\n"
                   + "".join(" ".join(str(r + j * 0.25) for j in range(_c)) + "\n" for r in range(1, _r + 1)))
OPTS = [{}, {"version": 1.2}, {"version": 2.0, "wrap": True}, {"fmt": "%.3f"}, {"fmt": "%.10g", "len_numeric_field": 25},
        {"version": 1.2, "wrap": True, "data_width": 40}, {"mnemonics_header": True}, {"wrap": False, "spacer": "\t"}, {"wrap": True, "spacer": "\t"}]


def mutate_text(text, rng):
    lines = text.split("\n")
    out = []
    sec = ""
    for ln in lines:
        if ln.startswith("~"):
            sec = ln[1:2].upper()
        out.append(ln)
        if sec in ("W", "P", "C") and ln and not ln.startswith(("~", "#")) and rng.random() < 0.15 and "." in ln:
            if sec == "C":
                continue
            how = rng.choice(["dup", "blank", "empty", "odd"])
            if how == "dup":
                out.append(ln)
            elif how == "blank":
                out.append(". 5 : blank mnemonic")
            elif how == "empty":
                out.append("EMPT%d.unit  : empty" % rng.randint(0, 9))
            else:
                out.append("ODD%d..1IN 7 : odd unit" % rng.randint(0, 9))
    return "\n".join(out)


def run(ctx):
    rng = random.Random(ctx.seed)
    thorough = ctx.tier == "thorough"
    sources = [("gen%d" % i, t) for i, t in enumerate(GEN)]
    corpus = list(corpus_texts())
    if not thorough:
        corpus = [x for i, x in enumerate(corpus) if i % 3 == 0 or "DLM" in x[1][:600].upper() or '"' in x[1]]
    sources += [(fn.replace(core.REPO, ""), t) for fn, t in corpus]
    for name, t in list(sources):
        for k in range(3 if thorough else 1):
            sources.append((name + "#mut%d" % k, mutate_text(t, rng)))
    events, meta = [], []
    skipped = 0
    for name, text in sources:
        optsets = OPTS if thorough else [OPTS[0]] + rng.sample(OPTS[1:], 2)
        if "DLM" in text[:600].upper():
            # a declared delimiter: a tab spacer in wrapped output, and a comma spacer
            optsets = optsets + [o for o in (OPTS[-1], {"spacer": ","}) if o not in optsets]
        for kw in optsets:
            # (generated inputs are also cycled as read with mnemonic_case preserve / lower)
            rk = {} if not name.startswith("gen") or "#mut" in name else {"mnemonic_case": ["upper", "preserve", "lower"][len(events) % 3]}
            digs, info = roundtrip.cycle(text, kw, 4 if thorough else 3, read_kw=rk)
            if digs is None:
                skipped += 1
                continue
            events.append({"op": "cycle", "prop": "C11", "digests": digs, "idxloss": info["idxloss"], "only_sss": info["only_sss"]})
            meta.append({"input": name, "opts": {k: str(v) for k, v in kw.items()}, "read": rk, "first_difference": info["first_difference"],
                         "text": text if len(text) < 3000 else None})
            ctx.evaluations += 1
            ctx.case([name, sorted(kw.items())])
        if "#mut" not in name:
            # the same input as an object with a history: header read with ignore_data=True, samples stored later with set_data()
            kw = optsets[0]
            digs, info = roundtrip.cycle(text, kw, 3, read_kw={}, assemble=True)
            if digs is not None:
                events.append({"op": "cycle", "prop": "C11", "digests": digs, "idxloss": info["idxloss"], "only_sss": info["only_sss"]})
                meta.append({"input": name + " (assembled: read(ignore_data=True) + set_data)", "opts": {k: str(v) for k, v in kw.items()}, "read": {},
                             "first_difference": info["first_difference"], "text": text if len(text) < 3000 else None})
                ctx.evaluations += 1
                ctx.case([name, "assembled"])
    ctx.extra["inputs"] = len(sources)
    ctx.extra["skipped_not_readable_or_writable"] = skipped
    ctx.exhaustive = False
    fails, _ = ctx.validate("Trace_RoundTrip", {"traces": [[e] for e in events]})
    for tid, l, clause in fails:
        m = meta[tid]
        ctx.report(clause, "input=%s opts=%s first difference: %s" % (m["input"], m["opts"], m["first_difference"]),
                   {"meta": m, "digests": events[tid]["digests"]})
    ctx.sample({"input": meta[0]["input"], "opts": meta[0]["opts"], "digests": events[0]["digests"]})
    ctx.sample({"input": meta[-1]["input"], "opts": meta[-1]["opts"], "digests": events[-1]["digests"]})
    ctx.assumptions += ["inputs lasio cannot read, or cannot write once, are outside the quantifier and skipped (counted in the evidence)",
                        "header numbers are compared numerically (canonical decimal), curve data by dtype and bytes"]
    return ctx.finish(RULE)
