"""C08 - header values become numbers only when they are numeric literals."""
import itertools
import json
import random
from decimal import Decimal, InvalidOperation

import numpy as np

from harness import core, tlc

import lasio

RULE = ("design level: NumLitCheck (TLC) -- the DFA and the declarative grammar of 'plain decimal literal' agree on every string up to "
        "length 5 over a 7-symbol alphabet; spec->code: EVERY string up to the length bound over the property's alphabet {0 1 9 + - . , "
        "e E _ blank a x / : i n f} (plus a list of long cases: 64-bit boundaries, overflowing exponents, dates, times, identifiers, "
        "non-ASCII digits) is placed as a value in ~Version, ~Well, ~Parameter, a custom section and ~Curves under the mnemonics X, "
        "API, UWI, api, Uwi, read by real lasio (40-400 items per generated file), and the observed type/value is validated by "
        "Trace_NumLit against NumLit!Class.  Distinct by (string, section, mnemonic).")

ALPHABET = "019+-.,eE_ ax/:inf"
LONG = ["9223372036854775807", "9223372036854775808", "-9223372036854775808", "-9223372036854775809", "18446744073709551616",
        "1e400", "-1e400", "1e-400", "1E308", "1.7976931348623157e308", "1.8e308", "12-34-12-34W5M", "15_9", "1_000.5", "1e1_0",
        "2018-05-22", "22/05/2018", "13:45:00", "13:45", "0x1F", "0b101", "0o17", "inf", "-inf", "nan", "NaN", "Infinity", "1e5", "1E+5",
        "1.5e-3", "+7", "-0", "007", "00.5", "1,5", "1,5e3", "1,2,3", "12,34-56W5M", "1.2.3", "1..2", "1e", "e5", "+", "-", ".", ",",
        "5.", ".5", "5,", ",5", "+.5", "-5.", "1 000", "1 000", "٣", "１２", "²", "1e5.2", "--5", "+-5", "5e+", "5e-",
        "3.14159265358979323846264338327950288", "0.1", "100000000000000000000", "1" * 40, "0" * 30 + "1", "1d5", "1f", "1L", "True",
        "None", "(5)", "[5]", "5%", "$5", "5m", "1/2", "05123370660000", "42-037-20012"]
SECTIONS = [("V", "~Version"), ("W", "~Well"), ("P", "~Parameter"), ("X", "~Tool"), ("C", "~Curves")]
MNEMS = ["X", "API", "UWI", "api", "Uwi", "aPi"]


def classify_obs(v):
    if isinstance(v, (bool, np.bool_)):
        return "bool"
    if isinstance(v, (int, np.integer)):
        return "int"
    if isinstance(v, (float, np.floating)):
        return "float"
    if isinstance(v, str):
        return "str"
    return type(v).__name__


def facts(lit):
    """fits64 / finite / numeric value of a literal, by exact arithmetic (the projection's share of the oracle)."""
    t = lit.replace(",", ".")
    try:
        d = Decimal(t)
    except InvalidOperation:
        return True, True, None
    if not d.is_finite():
        return True, True, None
    fits = True
    if d == d.to_integral_value():
        fits = -2 ** 63 <= int(d) <= 2 ** 63 - 1
    try:
        f = float(t)
    except (ValueError, OverflowError):
        return fits, True, None
    finite = not (f in (float("inf"), float("-inf")) or f != f)
    return fits, finite, d


def placeable(s, sec):
    if s != s.strip() or s == "":
        return False
    if "\n" in s or "\r" in s:
        return False
    if ".." in s and sec == "C":
        return False            # '..' in a ~Curves line is the documented "mnemonic ending in a period" form
    if ":" in s and sec == "P":
        return False            # inside ~Parameter a colon may end the value (time rule): not a conformant value slot
    return True


def _raises(text):
    try:
        lasio.read(text)
        return False
    except Exception:
        return True


def build(sec, title, mn, strings):
    lines = ["~Version", "VERS. 2.0 : v", "WRAP. NO : w"]
    # generic items get distinct mnemonics (lasio renumbers duplicates in cubic time); API / UWI must keep their name
    body = ["%s. %s : d%d" % ((mn + str(i)) if mn == "X" else mn, s, i) for i, s in enumerate(strings)]
    if sec == "V":
        lines += body
    else:
        lines += [title] + body
    if sec != "C":
        lines += ["~Curves", "DEPT.M : d"]
    lines += ["~ASCII", "1"]
    return "\n".join(lines) + "\n"


def run(ctx):
    rng = random.Random(ctx.seed)
    thorough = ctx.tier == "thorough"
    cfg = ("SPECIFICATION Spec\nCONSTANTS\n  Alphabet = {49, 43, 46, 44, 101, 95, 97}\n  MaxLen = %d\n  Emit = TRUE\n"
           "CONSTRAINT EmitLit\nINVARIANT Agree\nCHECK_DEADLOCK FALSE\n" % (6 if thorough else 5))
    r = ctx.model_check("NumLitCheck", cfg, label="NumLit: DFA = declarative grammar", workers=16)
    lits = r.printed_json()
    # the literals TLC accepts are exactly those Python's Decimal accepts (independent cross-check of the grammar)
    for L in lits:
        s = "".join(chr(c) for c in L["s"])
        if not L["amb"]:
            try:
                Decimal(s.replace(",", "."))
            except InvalidOperation:
                raise tlc.MachineryError("NumLit accepts %r which is not a decimal literal" % s)
    ctx.extra["model_literals"] = len(lits)
    maxlen = 4 if thorough else 3
    strings = []
    for n in range(1, maxlen + 1):
        for t in itertools.product(ALPHABET, repeat=n):
            strings.append("".join(t))
    strings = [s for s in strings if s == s.strip()]
    if thorough:
        for _ in range(60000):
            strings.append("".join(rng.choice(ALPHABET) for _ in range(rng.randint(5, 9))).strip() or "0")
    strings += LONG
    strings = list(dict.fromkeys(strings))
    ctx.exhaustive = True
    ctx.extra["strings"] = len(strings)
    events = []
    combos = []
    for sec, title in SECTIONS:
        for mn in (MNEMS if (thorough or sec in ("W", "P", "C")) else MNEMS[:2]):
            combos.append((sec, title, mn))
    for sec, title, mn in combos:
        ok = [s for s in strings if placeable(s, sec)]
        step = 400 if mn == "X" else 40
        for i in range(0, len(ok), step):
            chunk = ok[i:i + step]
            text = build(sec, title, mn, chunk)
            # the case option must not matter: API / UWI are recognised in any case under every mnemonic_case
            mcase = ["upper", "preserve", "lower"][(i // step + len(mn)) % 3]
            try:
                las = lasio.read(text, mnemonic_case=mcase)
            except Exception:
                # a value that makes read() fail is an observation, not a harness problem: find it one by one
                for s1 in chunk:
                    try:
                        lasio.read(build(sec, title, mn, [s1]))
                    except Exception as e1:
                        fits, finite, d = facts(s1)
                        events.append({"op": "num", "s": [ord(c) for c in s1] if all(ord(c) < 2 ** 20 for c in s1) else [0],
                                       "sec": sec, "mn": mn.upper(), "obs": "exc:" + type(e1).__name__, "eq": False,
                                       "fits64": bool(fits), "finite": bool(finite)})
                chunk = [s1 for s1 in chunk if not _raises(build(sec, title, mn, [s1]))]
                if not chunk:
                    continue
                las = lasio.read(build(sec, title, mn, chunk), mnemonic_case=mcase)
            ctx.evaluations += 1
            section = {"V": las.version, "W": las.well, "P": las.params, "C": las.curves}.get(sec)
            if section is None:
                section = las.sections["Tool"]
            items = [it for it in list.__iter__(section) if it.original_mnemonic.upper().rstrip("0123456789") == mn.upper()
                     and str(it.descr)[:1] == "d" and str(it.descr)[1:].isdigit()]
            if sec == "V":
                items = [it for it in items]
            if len(items) != len(chunk):
                raise tlc.MachineryError("batch lost items: %d of %d in %s/%s" % (len(items), len(chunk), sec, mn))
            for s, it in zip(chunk, items):
                if it.descr != "d%d" % chunk.index(s) and str(it.descr)[:1] != "d":
                    raise tlc.MachineryError("line not parsed as laid out: %r -> %r" % (s, (it.value, it.descr)))
                v = it.value
                obs = classify_obs(v)
                fits, finite, d = facts(s)
                if obs == "str":
                    eq = (v == s)
                elif obs == "int":
                    eq = d is not None and d == d.to_integral_value() and int(v) == int(d)
                elif obs == "float":
                    try:
                        eq = float(v) == float(s.replace(",", "."))
                    except ValueError:
                        eq = False
                else:
                    eq = False
                events.append({"op": "num", "s": [ord(c) for c in s] if all(ord(c) < 2 ** 20 for c in s) else [0], "sec": sec,
                               "mn": mn.upper(), "obs": obs, "eq": bool(eq), "fits64": bool(fits), "finite": bool(finite)})
                ctx.case([s, sec, mn])
    # batches of 2000 observations per trace
    traces = [events[i:i + 2000] for i in range(0, len(events), 2000)]
    fails, _ = ctx.validate("Trace_NumLit", {"traces": traces}, timeout=3000)
    for tid, l, clause in fails:
        ev = traces[tid][l]
        s = "".join(chr(c) for c in ev["s"])
        ctx.report(clause, "value %r in section %s under mnemonic %s read as %s (equal=%s)" % (s, ev["sec"], ev["mn"], ev["obs"], ev["eq"]),
                   {"string": s, "event": ev})
    ctx.extra["observations"] = len(events)
    ctx.sample({"string": "1,5e3", "events": [e for e in events if "".join(chr(c) for c in e["s"]) == "1,5e3"][:3]})
    ctx.sample({"string": "15_9", "events": [e for e in events if "".join(chr(c) for c in e["s"]) == "15_9"][:2]})
    ctx.assumptions += [
        "spellings with a fraction mark at either end of the digits (5. .5 5, ,5) are not judged (the statement can be read either way)",
        "'numerically equal to the literal' = equal to the correctly rounded float64 / the exact integer (Decimal arithmetic in the projection)",
        "strings with ':' are not placed in ~Parameter (the time rule may end the value there); the string under test is the stripped text",
    ]
    return ctx.finish(RULE)
