"""C06 - exactly the NULL-valued samples of non-index curves become NaN."""
import io
import random

import numpy as np

from harness import core, lastext, tlc

RULE = ("spec->code: every class mask {finite, NULL-equal, near-NULL} on r x c data blocks x {text column or not} x null_policy "
        "{strict, none} x {~W with NULL, without} x {WRAP NO, YES} (ReadInstances family C06) concretised with seeded spellings of "
        "the NULL value (-999.25, -999.2500, -9.9925E2, ...) and near-NULL values, read with both engines, validated by "
        "Trace_Read against LasRead!NullRule; write side: NaN masks written with several NULL values and re-read.  Distinct by "
        "abstract text x engine, and by (mask, NULL value) on the write side.")


def run(ctx):
    rng = random.Random(ctx.seed)
    thorough = ctx.tier == "thorough"
    insts = lastext.instances(ctx, "C06", 2, 3, 2, thorough, timeout=3000)
    ctx.extra["model_instances"] = len(insts)
    limit = None if thorough else 2500
    if limit and len(insts) > limit:
        insts = [insts[i] for i in sorted(rng.sample(range(len(insts)), limit))]
    ctx.exhaustive = limit is None
    events, meta = [], []
    for inst in insts:
        null = rng.choice(sorted(lastext.NULL_STYLES))
        concrete = lastext.concretise(inst["text"], rng, {"null": null})
        for eng in ("numpy", "normal"):
            ev = lastext.read_event("C06", inst, concrete, engines=(eng,), null=null)
            events.append(ev)
            lastext.engine_drift(ctx, inst, ev, eng)
            meta.append({"tag": inst["tag"], "engine": eng, "null": null, "concrete": concrete})
            ctx.evaluations += 1
            ctx.case([inst["tag"], eng])
    fails, _ = ctx.validate("Trace_Read", {"traces": [[e] for e in events]})
    lastext.judge(ctx, events, meta, fails)
    # write side: every NaN is emitted as the current NULL value, so the NaN positions survive a write->read cycle
    from harness import roundtrip
    wevents = []
    masks = ["none", "one", "row", "col", "all", "checker"]
    for k in range(1200 if thorough else 240):
        inst = {"ncurves": rng.randint(2, 9), "nrows": rng.choice([1, 2, 3, 5]), "version": rng.choice(["1.2", "2.0"]),
                "wrap": rng.random() < 0.4, "engine": rng.choice(["numpy", "normal"]), "mh": False, "mask": masks[k % 6],
                "pres": rng.randint(1, len(roundtrip.PRES))}
        wevents.append(roundtrip.data_event(inst, rng, prop="C06"))
        ctx.evaluations += 1
        ctx.case(["write-side", inst])
    # wrapped output whose every physical line carries a hyphen (negative index, negative NULL in every other cell): lasio's
    # hyphen heuristic then re-sniffs the column count; curve counts that wrap into equal lines (8 = 4 + 4) and unequal ones
    for n in (5, 8, 9, 12, 14):
        for eng in ("numpy", "normal"):
            for v in ("1.2", "2.0"):
                inst = {"ncurves": n, "nrows": 3, "version": v, "wrap": True, "engine": eng, "mh": False, "mask": "all", "pres": 1,
                        "hyphens": True}
                wevents.append(roundtrip.data_event(inst, rng, prop="C06"))
                ctx.evaluations += 1
                ctx.case(["write-side", inst])
    slim = [[roundtrip.slim_data(e)] for e in wevents]
    fails, _ = ctx.validate("Trace_RoundTrip", {"traces": slim})
    for tid, l, clause in fails:
        ev = wevents[tid]
        ctx.report(clause, "write side: opts=%s engine=%s exc=%r" % (ev["opts"], ev["engine"], ev["exc"]), {"event": ev})
    ctx.sample({"tag": meta[len(meta) // 2]["tag"], "concrete": meta[len(meta) // 2]["concrete"],
                "observed": events[len(events) // 2].get("res")})
    ctx.assumptions += ["numeric equality of a token and NULL is float(a) == float(b) (projection); a text column is "
                        "non-numeric in every row; near-NULL = within 0.02 of NULL but different"]
    return ctx.finish(RULE)
