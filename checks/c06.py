"""C06 - exactly the NULL-valued samples of non-index curves become NaN."""
import io
import random

import numpy as np

from harness import core, lastext, tlc

RULE = ("spec->code: every class mask {finite, NULL-equal, near-NULL} on r x c data blocks x {text column or not} x null_policy "
        "{strict, none} x {~W with NULL, without} x {WRAP NO, YES} (ReadInstances family C06) concretised with seeded spellings of "
        "the NULL value (-999.25, -999.2500, -9.9925E2, ...) and near-NULL values, read with both engines, validated by "
        "Trace_Read against LasRead!NullRule; write side: NaN masks written with several NULL values and re-read.  Distinct by "
        "abstract text x engine, and by (mask, NULL value) on the write side.")


def run(ctx):
    rng = random.Random(ctx.seed)
    thorough = ctx.tier == "thorough"
    insts = lastext.instances(ctx, "C06", 2, 3, 2, thorough, timeout=3000)
    ctx.extra["model_instances"] = len(insts)
    limit = None if thorough else 2500
    if limit and len(insts) > limit:
        insts = [insts[i] for i in sorted(rng.sample(range(len(insts)), limit))]
    ctx.exhaustive = limit is None
    events, meta = [], []
    for inst in insts:
        null = rng.choice(sorted(lastext.NULL_STYLES))
        concrete = lastext.concretise(inst["text"], rng, {"null": null})
        for eng in ("numpy", "normal"):
            ev = lastext.read_event("C06", inst, concrete, engines=(eng,), null=null)
            events.append(ev)
            lastext.engine_drift(ctx, inst, ev, eng)
            meta.append({"tag": inst["tag"], "engine": eng, "null": null, "concrete": concrete})
            ctx.evaluations += 1
            ctx.case([inst["tag"], eng])
    fails, _ = ctx.validate("Trace_Read", {"traces": [[e] for e in events]})
    lastext.judge(ctx, events, meta, fails)
    ctx.sample({"tag": meta[len(meta) // 2]["tag"], "concrete": meta[len(meta) // 2]["concrete"],
                "observed": events[len(events) // 2].get("res")})
    ctx.assumptions += ["numeric equality of a token and NULL is float(a) == float(b) (projection); a text column is "
                        "non-numeric in every row; near-NULL = within 0.02 of NULL but different"]
    return ctx.finish(RULE)
