"""C07 - curves are rectangular and bound to their own column."""
import random

from harness import core, lastext, tlc

RULE = ("spec->code: every abstract text of the ReadInstances family C07 (declared curves d, data columns c, rows r with c <, =, > d; "
        "wrapped layouts with every tokens-per-line; TLC checks LegalText/Partition on each) is concretised with seeded spellings, "
        "separators, title styles and newlines, read with both engines, and the projected result (every cell carries its own "
        "(row, column) coordinates in its value) validated by Trace_Read against LasRead!Read.  Distinct by abstract text x engine.")


def run(ctx, prop="C07", family="C07", engines_each=True):
    rng = random.Random(ctx.seed)
    thorough = ctx.tier == "thorough"
    insts = lastext.instances(ctx, family, 4 if thorough else 3, 6 if thorough else 4, 5 if thorough else 4, thorough)
    ctx.exhaustive = True
    events, meta = [], []
    reps = 6 if thorough else 3
    for inst in insts:
        for rep in range(reps):
            names = ["std", "numeric", "lower"][rep % 3]
            concrete = lastext.concretise(inst["text"], rng, {"names": names, "neg": rep % 2 == 1})
            for eng in ("numpy", "normal"):
                ev = lastext.read_event(prop, inst, concrete, engines=(eng,), names=names)
                events.append(ev)
                lastext.engine_drift(ctx, inst, ev, eng)
                meta.append({"tag": inst["tag"], "engine": eng, "concrete": concrete})
                ctx.evaluations += 1
                ctx.case([inst["tag"], eng])
    fails, _ = ctx.validate("Trace_Read", {"traces": [[e] for e in events]})
    lastext.judge(ctx, events, meta, fails)
    ctx.sample({"tag": insts[len(insts) // 2]["tag"], "concrete": meta[len(meta) // 2]["concrete"],
                "observed": events[len(events) // 2].get("res")})
    ctx.assumptions += [
        "when every data line carries the same number of values; wrapped only with c = d (otherwise the file does not "
        "determine the column count)",
        "cell values encode (row, column): r*100 + c + 0.25, recovered exactly by the projection",
    ]
    return ctx.finish(RULE)
