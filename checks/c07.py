"""C07 - curves are rectangular and bound to their own column."""
import random

from harness import core, lastext, tlc

RULE = ("spec->code: every abstract text of the ReadInstances family C07 (declared curves d, data columns c, rows r with c <, =, > d; "
        "wrapped layouts with every tokens-per-line; TLC checks LegalText/Partition on each) is concretised with seeded spellings, "
        "separators, title styles and newlines, read with both engines, and the projected result (every cell carries its own "
        "(row, column) coordinates in its value) validated by Trace_Read against LasRead!Read.  Distinct by abstract text x engine.")


def run(ctx, prop="C07", family="C07", engines_each=True):
    rng = random.Random(ctx.seed)
    thorough = ctx.tier == "thorough"
    insts = lastext.instances(ctx, family, 4 if thorough else 3, 6 if thorough else 4, 5 if thorough else 4, thorough)
    ctx.exhaustive = True
    events, meta = [], []
    reps = 6 if thorough else 3
    for inst in insts:
        for rep in range(reps):
            names = ["std", "numeric", "lower"][rep % 3]
            # on text-free data the other null policies must give what 'strict' gives (no sample is a sentinel here); they force
            # the normal engine and run their substitutions over every line.  Blank-only separators: the regexp policies
            # are known to mistake a tab after a blank for a token (outside this property)
            textfree = not any(ln["k"] == "data" and any(c["cls"] != "FIN" for c in ln["cells"]) for ln in inst["text"])
            policy = None
            spacedlm = not any(ln["k"] == "item" and ln["m"] == "DLM" for ln in inst["text"])
            if textfree and spacedlm and rep == reps - 1:
                policy = [["all"], ["numbers-only"], ["aggressive"], [["NULL", "numbers-only"]]][len(events) % 4][0]
            concrete = lastext.concretise(inst["text"], rng, {"names": names, "neg": rep % 2 == 1 and policy is None,
                                                               "notabs": policy is not None})
            for eng in ("numpy", "normal"):
                ev = lastext.read_event(prop, inst, concrete, engines=(eng,), names=names,
                                        extra_kw={"null_policy": policy} if policy is not None else None)
                events.append(ev)
                if policy is None:
                    lastext.engine_drift(ctx, inst, ev, eng)
                meta.append({"tag": inst["tag"], "engine": eng, "concrete": concrete})
                ctx.evaluations += 1
                ctx.case([inst["tag"], eng])
    fails, _ = ctx.validate("Trace_Read", {"traces": [[e] for e in events]})
    lastext.judge(ctx, events, meta, fails)
    ctx.sample({"tag": insts[len(insts) // 2]["tag"], "concrete": meta[len(meta) // 2]["concrete"],
                "observed": events[len(events) // 2].get("res")})
    ctx.assumptions += [
        "when every data line carries the same number of values; wrapped only with c = d (otherwise the file does not "
        "determine the column count)",
        "cell values encode (row, column): r*100 + c + 0.25, recovered exactly by the projection",
    ]
    return ctx.finish(RULE)
