"""C05 - every line is attributed to the section whose title precedes it."""
import random

from harness import core, lastext, tlc

RULE = ("spec->code: every abstract text of the ReadInstances family C05 -- every order of every subset of {~W, ~C, ~P, ~O, custom "
        "sections} with ~A anywhere after ~V, section sizes incl. empty, items named VERS/WRAP/NULL/DLM placed in ~P and custom "
        "sections (TLC checks LegalText, Partition and OnlyVandWsteer on each) -- concretised with every title spelling class "
        "(letter, word, trailing text x upper, lower) chosen by seed, read with real lasio, validated by Trace_Read against "
        "LasRead!Read.  Distinct by abstract text x title-style draw.")


def run(ctx):
    rng = random.Random(ctx.seed)
    thorough = ctx.tier == "thorough"
    insts = lastext.instances(ctx, "C05", 2, 2, 2, thorough, timeout=3000)
    ctx.extra["model_instances"] = len(insts)
    limit = 40000 if thorough else 2500
    if limit and len(insts) > limit:
        insts = [insts[i] for i in sorted(rng.sample(range(len(insts)), limit))]
    ctx.exhaustive = len(insts) <= (limit or 10 ** 9) and ctx.extra["model_instances"] == len(insts)
    events, meta = [], []
    for inst in insts:
        for rep in range(2 if thorough else 1):
            concrete = lastext.concretise(inst["text"], rng)
            eng = "numpy" if rng.random() < 0.7 else "normal"
            ev = lastext.read_event("C05", inst, concrete, engines=(eng,))
            events.append(ev)
            lastext.engine_drift(ctx, inst, ev, eng)
            meta.append({"tag": inst["tag"], "engine": eng, "concrete": concrete})
            ctx.evaluations += 1
            ctx.case([inst["tag"], [l for l in concrete.splitlines() if l.startswith("~")]])
    fails, _ = ctx.validate("Trace_Read", {"traces": [[e] for e in events]})
    lastext.judge(ctx, events, meta, fails)
    ctx.sample({"tag": meta[len(meta) // 2]["tag"], "concrete": meta[len(meta) // 2]["concrete"],
                "observed": events[len(events) // 2].get("res")})
    ctx.assumptions += ["~V first; each standard section at most once; titles start in column 0; WRAP NO; ~W and ~C always present "
                        "(absent standard sections must keep lasio's default content); ~O bodies hold free text lines only"]
    return ctx.finish(RULE)
