"""C05 - every line is attributed to the section whose title precedes it."""
import random

from harness import core, lastext, tlc

RULE = ("spec->code: every abstract text of the ReadInstances family C05 -- every order of every subset of {~W, ~C, ~P, ~O, custom "
        "sections} with ~A anywhere after ~V, section sizes incl. empty, items named VERS/WRAP/NULL/DLM placed in ~P and custom "
        "sections (TLC checks LegalText, Partition and OnlyVandWsteer on each) -- concretised with every title spelling class "
        "(letter, word, trailing text x upper, lower) chosen by seed, read with real lasio, validated by Trace_Read against "
        "LasRead!Read.  Distinct by abstract text x title-style draw.")


def run(ctx):
    rng = random.Random(ctx.seed)
    thorough = ctx.tier == "thorough"
    insts = lastext.instances(ctx, "C05", 2, 2, 2, thorough, timeout=3000)
    ctx.extra["model_instances"] = len(insts)
    limit = 40000 if thorough else 2500
    if limit and len(insts) > limit:
        insts = [insts[i] for i in sorted(rng.sample(range(len(insts)), limit))]
    ctx.exhaustive = len(insts) <= (limit or 10 ** 9) and ctx.extra["model_instances"] == len(insts)
    events, meta = [], []
    for inst in insts:
        for rep in range(2 if thorough else 1):
            concrete = lastext.concretise(inst["text"], rng)
            eng = "numpy" if rng.random() < 0.7 else "normal"
            ev = lastext.read_event("C05", inst, concrete, engines=(eng,))
            events.append(ev)
            lastext.engine_drift(ctx, inst, ev, eng)
            meta.append({"tag": inst["tag"], "engine": eng, "concrete": concrete})
            ctx.evaluations += 1
            ctx.case([inst["tag"], [l for l in concrete.splitlines() if l.startswith("~")]])
    fails, _ = ctx.validate("Trace_Read", {"traces": [[e] for e in events]})
    lastext.judge(ctx, events, meta, fails)
    # recorded finding D38: LAS 3.0 title heuristics applied to 1.2 / 2.0 files -- a ~C / ~P title that contains an underscore is
    # filed as a custom section, a custom section whose title contains "_Data" is dropped.  A dedicated probe: the same abstract
    # texts with exactly those title spellings; whatever clause fails on them is reported under the recorded clause.
    pick = [i for i in insts if i["tag"][0] == "perm" and all(x in i["tag"][1] for x in ("C", "P", "X1")) and i["tag"][5] == 2][:6]
    pev, pmeta = [], []
    for inst in pick:
        for style in ({"C": "~Curve_Information"}, {"P": "~Parameter_Info"}, {"X1": "~Tool_Data"}):
            concrete = lastext.concretise(inst["text"], rng, {"title": style})
            pev.append(lastext.read_event("C05", inst, concrete, engines=("normal",)))
            pmeta.append({"tag": inst["tag"], "title": style, "concrete": concrete})
            ctx.evaluations += 1
            ctx.case(["D38-probe", inst["tag"], sorted(style.items())])
    if pev:
        pf, _ = ctx.validate("Trace_Read", {"traces": [[e] for e in pev]})
        for tid in sorted(set(t for t, _, c in pf if not c.startswith("Harness."))):
            ctx.report("C05.Sections.known-D38", "title %s: %s" % (pmeta[tid]["title"], sorted(set(c for t, _, c in pf if t == tid))),
                       {"meta": pmeta[tid], "event": pev[tid]})
    ctx.sample({"tag": meta[len(meta) // 2]["tag"], "concrete": meta[len(meta) // 2]["concrete"],
                "observed": events[len(events) // 2].get("res")})
    ctx.assumptions += ["~V first; each standard section at most once; titles start in column 0; WRAP NO; ~W and ~C always present "
                        "(absent standard sections must keep lasio's default content); ~O bodies hold free text lines only",
                        "titles of ~C / ~P with an underscore and custom titles containing '_Data' are exercised by the D38 probe only"]
    return ctx.finish(RULE)
