"""C15 - section lookup by key, attribute, membership and get() always agree."""
from checks import c13


def run(ctx):
    return c13.run(ctx, prefix="C15.")
