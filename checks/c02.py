"""C02 - fast (numpy) and reference (normal) data engines return identical curves."""
import random

from harness import core, lastext, tlc

RULE = ("spec->code: every abstract text of the ReadInstances family C02 -- r x c data blocks with blank/comment decorations in "
        "every gap (including after the last row), ~A last or followed by ~P/~O/custom sections, with and without a section "
        "between ~C and ~A -- concretised with seeded numeric spellings (integers-as-floats, fixed, exponent, signed), separators, "
        "padding, LF/CRLF and final-newline choices; read with engine='numpy' and engine='normal'; Trace_Read requires both "
        "projections to equal LasRead!Read and each other, and the raw arrays to be bit-identical.  The LASIO_VERIF hook reports "
        "which engine really produced each result (non-vacuity).  Distinct by abstract text x spelling draw.")


def run(ctx):
    rng = random.Random(ctx.seed)
    thorough = ctx.tier == "thorough"
    insts = lastext.instances(ctx, "C02", 3 if thorough else 2, 3, 2, thorough, timeout=3000)
    ctx.extra["model_instances"] = len(insts)
    limit = None if thorough else 2500
    if limit and len(insts) > limit:
        zero = [i for i in insts if i["tag"][0] == "zero"]            # the all-zero blocks are always run
        rest = [i for i in insts if i["tag"][0] != "zero"]
        insts = [rest[i] for i in sorted(rng.sample(range(len(rest)), limit))] + zero
    ctx.exhaustive = limit is None
    events, meta = [], []
    fast = total = allr = allfast = 0
    for inst in insts:
        concrete = lastext.concretise(inst["text"], rng)
        ev = lastext.read_event("C02", inst, concrete, engines=("numpy", "normal"))
        events.append(ev)
        lastext.engine_drift(ctx, inst, ev, "numpy")
        meta.append({"tag": inst["tag"], "concrete": concrete})
        ctx.evaluations += 2
        ctx.case([inst["tag"]])
        # the fast path applies when genfromtxt can stop by itself: ~A is the last section, or the data block has no
        # blank/comment lines (otherwise max_rows over-counts, genfromtxt runs into the next title and lasio falls back)
        _, r, c, deco, followers = inst["tag"]
        if inst["tag"][0] == "zero":
            deco = [[]] * (r + 1)
        applies = (not followers) or all(len(d) == 0 for d in deco[:r + 1])
        if ev["fastpath"]:
            allr += 1
            allfast += 1 if ev["fastpath"][0] == ["numpy"] else 0
            if applies:
                total += 1
                fast += 1 if ev["fastpath"][0] == ["numpy"] else 0
    ctx.extra["fast_path_fraction_where_it_applies"] = round(fast / max(total, 1), 3)
    ctx.extra["fast_path_instances"] = total
    ctx.extra["fast_path_fraction_overall"] = round(allfast / max(allr, 1), 3)
    fails, _ = ctx.validate("Trace_Read", {"traces": [[e] for e in events]})
    lastext.judge(ctx, events, meta, fails)
    # vacuity guard -- unless the run already reports violations (a tree that never takes the fast path is then judged by those)
    if not [f for f in fails if not f[2].startswith(("Harness.", "Drift."))] and (total < 50 or fast / total < 0.9):
        raise tlc.MachineryError("vacuous: the numpy engine produced only %d of the %d results where it applies" % (fast, total))
    ctx.sample({"tag": meta[len(meta) // 2]["tag"], "concrete": meta[len(meta) // 2]["concrete"],
                "engines": events[len(events) // 2]["fastpath"]})
    ctx.assumptions += ["plain decimal tokens, blank/tab separated, one depth step per line, null_policy strict, dtypes auto",
                        "bit-identity is decided by the projection (dtype + bytes of every curve array)"]
    return ctx.finish(RULE)
