-------------------------------- MODULE Views --------------------------------
(***************************************************************************)
(* Property C18: what every export of a LASFile must contain, as functions *)
(* of the abstract object.                                                 *)
(***************************************************************************)
EXTENDS Integers, Sequences, FiniteSets

\* ---- index unit: decision table over the unit classes of STRT, STOP, STEP and the first curve ---------------
UnitClasses == {"M", "FT", ".1IN", "other"}
Recognised(us) == {u \in {us[i] : i \in DOMAIN us} : u # "other"}
IndexUnit(us) == IF Cardinality(Recognised(us)) = 1 THEN CHOOSE u \in Recognised(us) : TRUE ELSE "none"

\* ---- JSON: Python value class -> JSON value class ----------------------------------------------------------
JsonClass(pycls) == CASE pycls \in {"int", "float"} -> "num" [] pycls \in {"nan", "none"} -> "null"
                      [] pycls = "bool" -> "bool" [] OTHER -> "str"

\* ---- CSV: the header rows before the data records ------------------------------------------------------------
\* mn / un : "true", "false" or "list" ; loc : "line", "[]", "()"
\* rows are described as sequences of cell kinds: "m" mnemonic, "u" unit, "m[u]" mnemonic with bracketed unit
CsvHeader(mn, un, loc) ==
    LET hasM == mn # "false"  hasU == un # "false"
    IN (IF hasM THEN <<IF loc \in {"[]", "()"} /\ hasU THEN "m" \o loc ELSE "m">> ELSE <<>>)
       \o (IF hasU /\ loc = "line" THEN <<"u">> ELSE <<>>)

\* ---- Excel: the Header sheet lists every item of ~Version, ~Well, ~Parameter, ~Curves, in that order -----------
HeaderRows(secs) ==        \* secs: record of the four sections, each a sequence of session mnemonics
    [i \in 1..Len(secs.Version) |-> <<"~Version", secs.Version[i]>>]
    \o [i \in 1..Len(secs.Well) |-> <<"~Well", secs.Well[i]>>]
    \o [i \in 1..Len(secs.Parameter) |-> <<"~Parameter", secs.Parameter[i]>>]
    \o [i \in 1..Len(secs.Curves) |-> <<"~Curves", secs.Curves[i]>>]
=============================================================================
