--------------------------- MODULE Trace_RoundTrip ---------------------------
(***************************************************************************)
(* Write->read properties C01 (data), C03 (header), C11 (fixed point),      *)
(* C12 (writer options): observed round trips of real lasio.                *)
(*  data   : an R x C float block with a NaN mask is written with some       *)
(*           option set and read back; obs.cells[r][c] is the projection's   *)
(*           verdict on one sample: "OK" (within half a unit of the last     *)
(*           printed digit), "NAN", or "CORRUPT".                            *)
(*  header : items [o, oc, u, v, d] (character sequences; oc = o mapped by   *)
(*           the read case function; v canonical: numbers as '#'+decimal)    *)
(*  cycle  : digests of re-read 1, 2, ..., k of a load/save loop             *)
(*  pair   : digests of the content read from two differently written files  *)
(***************************************************************************)
EXTENDS TraceBase, FiniteSets, SequencesExt
VARIABLE done
WA == INSTANCE WriteLineAlgo
TInit == tid \in 1..NT /\ l = 1 /\ done = FALSE
C(n) == Ev.prop \o "." \o n

\* ---- C01 ------------------------------------------------------------------------
TData == /\ Ev.op = "data" /\ done' = TRUE
         /\ Chk(C("NoException"), Ev.exc = "")
         /\ Ev.exc = "" =>
              /\ Chk(C("CurveCount"), Ev.obs.ncurves = Ev.ncurves)
              /\ Chk(C("MnemonicsInOrder"), Ev.obs.names = Ev.names)
              /\ Chk(C("RowCount"), Ev.obs.nrows = Ev.nrows)
              /\ (Ev.obs.ncurves = Ev.ncurves /\ Ev.obs.nrows = Ev.nrows) =>
                   \* rows are listed once per distinct (mask row, verdict row) pair: DOMAIN Ev.mask, not 1..Ev.nrows
                   /\ Chk("Harness.RowsListed", Len(Ev.mask) = Len(Ev.obs.cells) /\ Len(Ev.mask) >= 1)
                   /\ Chk(C("FiniteRecovered"), \A r \in DOMAIN Ev.mask, c \in 1..Ev.ncurves :
                                                   ~Ev.mask[r][c] => Ev.obs.cells[r][c] \in {"OK"})
                   /\ Chk(C("NaNThroughNULL"), \A r \in DOMAIN Ev.mask, c \in 2..Ev.ncurves :
                                                   Ev.mask[r][c] => Ev.obs.cells[r][c] = "NAN")
                   /\ Chk(C("IndexNeverNulled"), \A r \in DOMAIN Ev.mask : Ev.obs.cells[r][1] # "NAN")

\* ---- C03 ------------------------------------------------------------------------
DOT == 46  COLON == 58
Has(s, c) == \E i \in DOMAIN s : s[i] = c
HasPair(s, c) == \E i \in 1..(Len(s) - 1) : s[i] = c /\ s[i + 1] = c
AllDigits(s) == s # <<>> /\ \A i \in DOMAIN s : s[i] \in 48..57
Bracketed(s) == Len(s) >= 2 /\ ((s[1] = 91 /\ s[Len(s)] = 93) \/ (s[1] = 40 /\ s[Len(s)] = 41))
Conformant(it, sec) ==
    /\ ~Has(it.o, DOT) /\ ~Has(it.o, COLON)
    /\ ~Has(it.u, 32) /\ ~Has(it.u, 9) /\ ~HasPair(it.u, DOT) /\ ~AllDigits(it.u) /\ ~Bracketed(it.u)
    /\ (it.u # <<>> => it.u[1] # DOT /\ it.u[Len(it.u)] # DOT)
    /\ ~Has(it.v, COLON) /\ ~Has(it.d, COLON)
    /\ (sec = "Curves" => ~HasPair(it.v, DOT))
EmptyV == <<>>
Zero == <<35, 48>>                       \* the canonical spelling "#0"
\* what must come back for one written item
ExpItem(it, sec) == [o |-> it.oc, u |-> it.u,
                     v |-> IF it.v = EmptyV /\ it.u # <<>> /\ sec \in {"Well", "Parameter"} THEN Zero ELSE it.v,
                     d |-> it.d]
ObsItem(it) == [o |-> it.o, u |-> it.u, v |-> it.v, d |-> it.d]
\* permitted differences: STRT/STOP/STEP are refreshed from the data, their units and the index curve's unit are aligned
Refreshed(it, sec) == sec = "Well" /\ it.up \in {"STRT", "STOP", "STEP"}
SameItem(x, y, sec, pos) ==
    IF Refreshed(x, sec) THEN ExpItem(x, sec).o = ObsItem(y).o /\ x.d = y.d
    ELSE IF sec = "Curves" /\ pos = 1 THEN [ExpItem(x, sec) EXCEPT !.u = <<>>] = [ObsItem(y) EXCEPT !.u = <<>>]
    ELSE ExpItem(x, sec) = ObsItem(y)
\* recorded finding D30: ~Well holds two items named STRT (or STOP, or STEP): write() cannot address "the" item and raises KeyError
KnownD30 == \E k \in DOMAIN Ev.secs : Ev.secs[k].name = "Well" /\
               \E i, j \in DOMAIN Ev.secs[k].items : i # j /\ Ev.secs[k].items[i].up = Ev.secs[k].items[j].up
                                                       /\ Ev.secs[k].items[i].up \in {"STRT", "STOP", "STEP"}
THeader == /\ Ev.op = "header" /\ done' = TRUE
           /\ Chk("Harness.Conformant", \A k \in DOMAIN Ev.secs : \A i \in DOMAIN Ev.secs[k].items :
                                           Conformant(Ev.secs[k].items[i], Ev.secs[k].name))
           /\ Chk(C("NoException"), Ev.exc = "" \/ KnownD30)
           /\ Chk(C("NoException.known-D30"), Ev.exc = "" \/ ~KnownD30)
           /\ Ev.exc = "" =>
                /\ \A k \in DOMAIN Ev.secs :
                     LET x == Ev.secs[k].items  y == Ev.obs[k].items  sec == Ev.secs[k].name
                     IN /\ Chk(C("SameItemCount"), Len(x) = Len(y))
                        /\ Len(x) = Len(y) => \A i \in DOMAIN x : Chk(C("ItemRecovered"), SameItem(x[i], y[i], sec, i))
                /\ Chk(C("OtherText"), Ev.other = Ev.obs_other)
                \* algorithm layer vs implementation: the header lines lasio wrote are exactly WriteLineAlgo!Lines (no verdict: drift)
                /\ \A k \in DOMAIN Ev.wsecs :
                     LET its == [i \in DOMAIN Ev.wsecs[k].items |-> [o |-> Ev.wsecs[k].items[i].o, u |-> Ev.wsecs[k].items[i].u,
                                                                     v |-> Ev.wsecs[k].items[i].v, d |-> Ev.wsecs[k].items[i].d]]
                         ords == [i \in DOMAIN its |-> IF Ev.version = "1.2" /\ Ev.wsecs[k].name = "Well"
                                                           /\ Ev.wsecs[k].items[i].up \notin {"STRT", "STOP", "STEP", "NULL"}
                                                        THEN "descr:value" ELSE "value:descr"]
                     IN Chk("Drift.WriteLineAlgo", Ev.wlines[k] = WA!Lines(its, ords))

\* ---- C11 / C12 --------------------------------------------------------------------
\* recorded finding D31: the index values are not representable in the format they are written with, and the only thing that
\* differs between the re-reads is the value of STRT/STOP/STEP (the first output keeps the file's values, the second refreshes them)
KnownD31 == Ev.idxloss /\ Ev.only_sss
TCycle == /\ Ev.op = "cycle" /\ done' = TRUE
          /\ Chk(C("Readable"), \A i \in DOMAIN Ev.digests : Ev.digests[i] # "EXC")
          /\ Chk(C("FixedPoint"), KnownD31 \/ \A i \in DOMAIN Ev.digests : Ev.digests[i] = Ev.digests[1])
          /\ Chk(C("FixedPoint.known-D31"), ~KnownD31 \/ \A i \in DOMAIN Ev.digests : Ev.digests[i] = Ev.digests[1])
TPair == /\ Ev.op = "pair" /\ done' = TRUE
         /\ Chk(C("Readable"), Ev.d1 # "EXC" /\ Ev.d2 # "EXC")
         /\ Chk(C("SameContent"), Ev.d1 = Ev.d2)
TNext == HasNext /\ Advance /\ (TData \/ THeader \/ TCycle \/ TPair)
TSpec == TInit /\ [][TNext]_<<tid, l, done>>
=============================================================================
