------------------------------- MODULE Extended -------------------------------
(***************************************************************************)
(* Behaviour of lasio beyond the twenty listed properties, specified the    *)
(* same way (intent functions + TLC-enumerated instances + trace validation *)
(* of real observations):                                                   *)
(*   stack_curves      which columns a stub / a list selects, natural sort  *)
(*   named null policies  which numeric sentinels become NaN, in which      *)
(*                     columns (algorithm level: what the tables in          *)
(*                     lasio/defaults.py actually contain)                   *)
(*   index_unit=       the override rule of LASFile.read                     *)
(*   dtypes=           list / dict / False                                   *)
(*   ignore_data       header only                                           *)
(*   unit detection    index_unit from the units of STRT/STOP/STEP/curve 0   *)
(*   depth_m/depth_ft  the conversion chosen by substring tests              *)
(*   update_start_stop_step   which of the three values come from the index  *)
(*   to_csv            which header lines mnemonics= / units= / units_loc= give *)
(*   read_policy       which substitutions are in force (hyphen heuristic)    *)
(*   encoding choice   which codec a file on disk is opened with (BOM,       *)
(*                     encoding=, ad hoc trial of ascii / windows-1252 /     *)
(*                     latin-1 on the FIRST line) when chardet is not asked  *)
(*   section routing   which parser a section title selects and under which  *)
(*                     key of LASFile.sections its content is stored, for    *)
(*                     1.2 / 2.0 / 3.0 files (algorithm level: the case       *)
(*                     analysis of LASFile.read and determine_section_type)  *)
(***************************************************************************)
EXTENDS Integers, Sequences, FiniteSets, TLC, Json, SequencesExt, FiniteSetsExt
CONSTANTS Emit
VARIABLES inst, stage

\* ---- stack_curves ------------------------------------------------------------
\* a curve name is <<stub, number>>; number 0 = no digits.  StubOrder gives the text order of the stubs.
StubOrder == ("CBP" :> 1) @@ ("CBX" :> 2) @@ ("DEPT" :> 3) @@ ("GR" :> 4)
Names == {<<"CBP", 1>>, <<"CBP", 2>>, <<"CBP", 10>>, <<"CBX", 1>>, <<"GR", 0>>}
Less(a, b) == StubOrder[a[1]] < StubOrder[b[1]] \/ (a[1] = b[1] /\ a[2] < b[2])        \* natural order
StartsWith(n, stub) == CASE stub = "CB" -> n[1] \in {"CBP", "CBX"}
                         [] stub = "CBP1" -> n[1] = "CBP" /\ n[2] \in {1, 10}
                         [] OTHER -> n[1] = stub
Positions(keys, sel(_)) == SelectSeq([i \in DOMAIN keys |-> i], LAMBDA i : sel(keys[i]))
SortedBy(keys, idx) == SortSeq(idx, LAMBDA i, j : Less(keys[i], keys[j]))
StackByStub(keys, stub, sort) ==
    LET idx == Positions(keys, LAMBDA n : StartsWith(n, stub))
    IN IF idx = <<>> THEN <<-1>>                                    \* KeyError: nothing starts with the stub
       ELSE IF sort THEN SortedBy(keys, idx) ELSE idx
IndexOf(keys, n) == LET hit == {i \in DOMAIN keys : keys[i] = n} IN IF hit = {} THEN 0 ELSE Min(hit)
StackByList(keys, names, sort) ==
    IF \E j \in DOMAIN names : IndexOf(keys, names[j]) = 0 THEN <<-1>>
    ELSE LET idx == [j \in DOMAIN names |-> IndexOf(keys, names[j])]
         IN IF sort THEN SortedBy(keys, idx) ELSE idx

\* ---- named null policies: numeric sentinels (every column, the index included: they are applied to the flat token array) ----
Sentinels(policy) ==
    CASE policy \in {"none", "strict"} -> {}
      [] policy = "common" -> {"999.25", "-999.25", "9999.25", "-9999.25"}
      [] policy \in {"aggressive", "all"} -> {"999.25", "-999.25", "9999.25", "-9999.25", "999", "-999", "999.99", "-999.99",
                                              "9999", "-9999", "32767", "-32767"}
      [] OTHER -> {}
\* (9999.99 and 2147483647 are documented for 'aggressive'/'all' but the table entry is the single string "9999.992147483647")
UsesHeaderNull(policy) == policy \in {"strict", "common", "aggressive", "all"}
NullMask(row, policy, nullv) ==         \* row: sequence of value ids (strings); TRUE = becomes NaN
    [c \in DOMAIN row |-> row[c] \in Sentinels(policy) \/ (UsesHeaderNull(policy) /\ c > 1 /\ row[c] = nullv)]

\* ---- index_unit= override ------------------------------------------------------
HasLowerM(u) == u \in {"m", "metres", "dm", "mm", "km"}      \* the rule is: the argument contains a lower-case m
IndexUnitOverride(arg) == IF arg = "none" THEN "detect" ELSE IF HasLowerM(arg) THEN "m" ELSE arg

\* ---- dtypes= ---------------------------------------------------------------------
\* kinds: "f" float, "i" int, "U" str;  spec is "auto", "false", or a sequence of kinds per column
DtypesOut(spec, ncols) == IF spec = <<"auto">> THEN [c \in 1..ncols |-> "f"]
                          ELSE IF spec = <<"false">> THEN [c \in 1..ncols |-> "U"] ELSE spec

\* ---- section routing --------------------------------------------------------------
\* A title is "~" + letter (upper or lower case) + a suffix; the suffix kinds and their spellings (harness/EXT table):
\*   plain ""   word "xyz section"   under "xyz_Information"   logdef "og_Definition"   logpar "og_Parameter"
\*   logdata "og_Data | Log_Definition"   x_data "ore_Data[1] | Core_Definition"   x_par "ore_Parameter"
\*   x_def "ore_Definition"   x_DATA "ORE_DATA"
RLetters == {"V", "W", "C", "P", "O", "A", "T", "L"}
RSuffixes == {"plain", "word", "under", "logdef", "logpar", "logdata", "x_data", "x_par", "x_def", "x_DATA"}
HasUnderscore(sf) == sf \notin {"plain", "word"}
ExactLog(t, sf) == t.letter = "L" /\ ~t.lower /\ t.suffix = sf         \* "~Log_Definition" etc. are matched case-sensitively
HasData(sf) == sf \in {"logdata", "x_data"}                            \* the text "_Data", case-sensitively
Las3Indicator(sf) == sf \in {"logdef", "logpar", "logdata", "x_data", "x_par", "x_def", "x_DATA"}   \* compared in upper case
RouteType(t) == IF t.letter = "A" \/ ExactLog(t, "logdata") THEN "Data"
                ELSE IF t.letter = "O" THEN "Other"
                ELSE IF HasData(t.suffix) THEN "Las3_Data"
                ELSE "Items"
RouteKey(t, vers) ==
    CASE RouteType(t) \in {"Data", "Las3_Data"} -> "data"             \* (a Las3_Data section is read when there is no ~A / ~Log_Data)
      [] RouteType(t) = "Other" -> "Other"
      [] OTHER ->
           IF (t.letter = "C" /\ ~HasUnderscore(t.suffix)) \/ ExactLog(t, "logdef") THEN "Curves"
           ELSE IF (t.letter = "P" /\ ~HasUnderscore(t.suffix)) \/ ExactLog(t, "logpar") THEN "Parameter"
           ELSE IF vers = "3.0" /\ Las3Indicator(t.suffix) THEN "own"
           ELSE IF t.letter = "V" THEN "Version" ELSE IF t.letter = "W" THEN "Well" ELSE "own"
Route(t, vers) == <<IF RouteType(t) = "Las3_Data" THEN "Data" ELSE RouteType(t), RouteKey(t, vers)>>

\* ---- encoding choice (autodetect_encoding = False, so chardet plays no part) ------------------------------------
\* content classes of the file: "ascii"; "late" = first line ASCII, a latin-1 byte later but within the first 8192 bytes (the
\* chunk a text-mode readline() decodes); "verylate" = the first non-ASCII byte lies beyond that chunk; "first1252" = a byte in
\* the first line that windows-1252 decodes; "first81" = a byte in the first line that windows-1252 does not define (0x81)
EncodingChoice(bom, explicit, content) ==
    IF bom THEN "utf-8-sig"                              \* a UTF-8 BOM wins, even over an explicit encoding=
    ELSE IF explicit # "none" THEN explicit
    ELSE CASE content \in {"ascii", "verylate"} -> "ascii"   \* only the first decoded chunk is tried (later bytes become U+FFFD)
           [] content \in {"first1252", "late"} -> "windows-1252"
           [] content = "first81" -> "latin-1"

\* ---- index unit detection (no index_unit= argument) -------------------------------------------------
\* the units of ~Well STRT / STOP / STEP and of the first curve are compared, case-insensitively, with the spellings of the three
\* families in defaults.DEPTH_UNITS; exactly one family among those that match -> that family, none or several -> None
UnitFamily(u) == CASE u \in {"FT", "ft", "F", "feet"} -> "FT"
                   [] u \in {"M", "m", "METRES", "Meter"} -> "M"
                   [] u \in {"0.1IN", "0.1inch"} -> ".1IN"
                   [] OTHER -> "none"                      \* "", "S", "MM", "FEETS", "IN" ... belong to no family
DetectUnit(us) == LET fams == {UnitFamily(us[i]) : i \in DOMAIN us} \ {"none"}
                  IN IF Cardinality(fams) = 1 THEN CHOOSE f \in fams : TRUE ELSE "None"

\* ---- depth_m / depth_ft -----------------------------------------------------------------------------
\* decided on LASFile.index_unit by *substring* tests in this order: contains M, contains F, contains .1IN (upper-cased)
UnitContains(u, code) == CASE code = "M" -> u \in {"M", "m", "FM", "MM", "metres"}
                       [] code = "F" -> u \in {"FT", "ft", "FM", "feet", "F"}
                       [] code = ".1IN" -> u \in {".1IN", "0.1inch"}
DepthFactor(u, want) ==        \* the arithmetic applied to the index, as a tag the driver recomputes bit for bit
    IF u = "None" THEN "LASUnknownUnitError"
    ELSE IF UnitContains(u, "M") THEN (IF want = "m" THEN "index" ELSE "index/0.3048")
    ELSE IF UnitContains(u, "F") THEN (IF want = "m" THEN "index*0.3048" ELSE "index")
    ELSE IF UnitContains(u, ".1IN") THEN (IF want = "m" THEN "(index/120)*0.3048" ELSE "index/120")
    ELSE "LASUnknownUnitError"

\* ---- update_start_stop_step(STRT, STOP, STEP) ---------------------------------------------------------
\* index kinds: "nocurves" (no curve at all), "len0", "len1", "regular", "irregular" (first difference differs from the others)
\* each argument is given ("arg") or left None; the three are filled in order inside one try block, an IndexError leaves the rest None
SSS(kind, strt, stop, step) ==
    LET broken == kind \in {"nocurves", "len0"}
        s1 == IF strt THEN "arg" ELSE IF broken THEN "None" ELSE "fmt(index[0])"
        stopReached == strt \/ ~broken                       \* the try block got past the STRT statement
        s2 == IF stop THEN "arg" ELSE IF broken \/ ~stopReached THEN "None" ELSE "fmt(index[-1])"
        s3 == IF step THEN "arg" ELSE IF kind \in {"regular", "irregular"} THEN "fmt(index[1]-index[0])" ELSE "None"
    IN <<s1, s2, s3>>

\* ---- to_csv header lines --------------------------------------------------------------------------------
\* mnemonics / units: "true" (taken from the curves), "false", "list" (supplied, non-empty), "empty" (supplied, []);  units_loc: "line", "[]", "()", "none"
CsvHeader(mn, un, loc) ==
    LET hasM == mn \in {"true", "list"}
        hasU == un \in {"true", "list"}
        first == IF ~hasM THEN <<>>
                 ELSE IF loc \in {"[]", "()"} /\ hasU THEN <<mn \o "-mnemonics " \o loc \o " " \o un \o "-units">>
                 ELSE <<mn \o "-mnemonics">>
        second == IF hasU /\ loc = "line" THEN <<un \o "-units">> ELSE <<>>
    IN first \o second

\* ---- ignore_data -------------------------------------------------------------------------------------------
IgnoreData(flag, rows) == IF flag THEN 0 ELSE rows          \* length of every declared curve

\* ---- read_policy substitutions and the hyphen heuristic ---------------------------------------------------
\* row kinds (three declared curves): plain "1.5 2.5 3.5", neg "1.5 -2.5 3.5", runon "1.5 2.5-3.5", runon3 "1.5-2.5-3.5",
\* cdec "1,5 2,5 3,5", dots "1.5 1.2.3".  Policies as sets of substitution names.
PolicySubs(pol) == CASE pol = "default" -> {"comma-decimal-mark", "run-on(-)", "run-on(.)"}
                     [] pol = "hyphen" -> {"run-on(-)"}
                     [] pol = "dots" -> {"run-on(.)", "comma-decimal-mark"}
                     [] OTHER -> {}
RowHasHyphen(kind) == kind \in {"neg", "runon", "runon3"}        \* the test is: the raw line contains the character '-'
\* run-on(-) is withdrawn when every sampled data line contains a hyphen (they might be dates) and the caller accepts recommendations
SubsInForce(pol, accept, rows) ==
    IF accept /\ \A i \in DOMAIN rows : RowHasHyphen(rows[i]) THEN PolicySubs(pol) \ {"run-on(-)"} ELSE PolicySubs(pol)
RowNumeric(kind, subs) == CASE kind \in {"plain", "neg"} -> TRUE
                            [] kind \in {"runon", "runon3"} -> "run-on(-)" \in subs
                            [] kind = "cdec" -> "comma-decimal-mark" \in subs
                            [] kind = "dots" -> "run-on(.)" \in subs
\* "numeric": three float curves holding the values the substitutions produce; anything else (text columns, ValueError) is "other"
ReadPolicyOutcome(pol, accept, rows) ==
    LET subs == SubsInForce(pol, accept, rows)
    IN IF \A i \in DOMAIN rows : RowNumeric(rows[i], subs) THEN "numeric" ELSE "other"

\* ---- instances -----------------------------------------------------------------
Perms(S) == {p \in [1..Cardinality(S) -> S] : \A i, j \in DOMAIN p : i # j => p[i] # p[j]}
Values == {"999.25", "-999.25", "9999.25", "-9999.25", "999", "-999", "9999.99", "2147483647", "32767", "-0.5", "7", "-9999"}
Stage1 == {"stack", "null", "unit", "dtypes", "route", "enc", "unitdet", "depth", "sss", "csv", "igdata", "readpol"}
DetUnits == {"FT", "ft", "F", "M", "m", "METRES", "0.1IN", "S", "", "MM"}
Fine(k) ==
    CASE k = "stack" ->
           {[kind |-> "stack", keys |-> p, arg |-> a, sort |-> s,
             expect |-> IF a \in {"CBP", "CB", "GR", "CBP1", "ZZ"} THEN StackByStub(p, a, s)
                        ELSE IF a = "list1" THEN StackByList(p, <<<<"CBP", 10>>, <<"CBP", 2>>>>, s)
                        ELSE StackByList(p, <<<<"CBX", 1>>, <<"CBP", 1>>, <<"GR", 0>>>>, s)] :
               p \in UNION {Perms(S) : S \in {T \in SUBSET Names : Cardinality(T) >= 3}}, a \in {"CBP", "CB", "GR", "CBP1", "ZZ", "list1", "list2"},
               s \in BOOLEAN}
      [] k = "null" ->
           {[kind |-> "null", row |-> r, policy |-> pol, nullv |-> nv, expect |-> NullMask(r, pol, nv)] :
               r \in [1..3 -> Values], pol \in {"none", "strict", "common", "aggressive", "all"}, nv \in {"-999.25", "-9999", "7"}}
      [] k = "unit" ->
           {[kind |-> "unit", arg |-> a, expect |-> IndexUnitOverride(a)] : a \in {"none", "m", "ft", "M", "metres", "feet", ".1in", "km"}}
      [] k = "dtypes" ->
           {[kind |-> "dtypes", spec |-> sp, expect |-> DtypesOut(sp, 3)] :
               sp \in {<<"auto">>, <<"false">>} \cup [1..3 -> {"f", "i", "U"}]}
      [] k = "route" ->
           {[kind |-> "route", title |-> t, vers |-> v, expect |-> Route(t, v)] :
               t \in [letter : RLetters, lower : BOOLEAN, suffix : RSuffixes], v \in {"1.2", "2.0", "3.0"}}
      [] k = "enc" ->
           {[kind |-> "enc", bom |-> b, explicit |-> e, content |-> c, expect |-> EncodingChoice(b, e, c)] :
               b \in BOOLEAN, e \in {"none", "utf-8", "latin-1", "cp1252"}, c \in {"ascii", "late", "verylate", "first1252", "first81"}}
      [] k = "unitdet" ->
           {[kind |-> "unitdet", units |-> us, expect |-> DetectUnit(us)] : us \in [1..4 -> DetUnits]}
      [] k = "depth" ->
           {[kind |-> "depth", unit |-> u, want |-> w, expect |-> DepthFactor(u, w)] :
               u \in {"M", "m", "FM", "MM", "metres", "FT", "ft", "feet", "F", ".1IN", "0.1inch", "S", "None"}, w \in {"m", "ft"}}
      [] k = "sss" ->
           {[kind |-> "sss", index |-> ik, strt |-> a, stop |-> b, step |-> c, expect |-> SSS(ik, a, b, c)] :
               ik \in {"nocurves", "len0", "len1", "regular", "irregular"}, a \in BOOLEAN, b \in BOOLEAN, c \in BOOLEAN}
      [] k = "csv" ->
           {[kind |-> "csv", mn |-> m, un |-> u, loc |-> lc, expect |-> CsvHeader(m, u, lc)] :
               m \in {"true", "false", "list", "empty"}, u \in {"true", "false", "list", "empty"}, lc \in {"line", "[]", "()", "none"}}
      [] k = "igdata" ->
           {[kind |-> "igdata", flag |-> f, rows |-> n, expect |-> IgnoreData(f, n)] : f \in BOOLEAN, n \in 0..3}
      [] k = "readpol" ->
           {[kind |-> "readpol", rows |-> r, policy |-> pol, accept |-> a, expect |-> ReadPolicyOutcome(pol, a, r)] :
               r \in [1..2 -> {"plain", "neg", "runon", "runon3", "cdec", "dots"}] \cup [1..3 -> {"plain", "neg", "runon", "dots"}],
               pol \in {"default", "hyphen", "dots", "none"}, a \in BOOLEAN}
Init == stage = 0 /\ inst = [kind |-> "seed"]
Next == \/ stage = 0 /\ stage' = 1 /\ \E k \in Stage1 : inst' = [kind |-> k]
        \/ stage = 1 /\ stage' = 2 /\ \E x \in Fine(inst.kind) : inst' = x
Spec == Init /\ [][Next]_<<inst, stage>>
\* sanity of the model itself
StackSane == (stage = 2 /\ inst.kind = "stack" /\ inst.expect # <<-1>>) =>
                /\ \A i \in DOMAIN inst.expect : inst.expect[i] \in DOMAIN inst.keys
                /\ (inst.sort => \A i \in 1..(Len(inst.expect) - 1) : ~Less(inst.keys[inst.expect[i + 1]], inst.keys[inst.expect[i]]))
EmitInst == (Emit /\ stage = 2) => PrintT(ToJson(inst))
=============================================================================
