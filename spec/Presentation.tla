----------------------------- MODULE Presentation -----------------------------
(***************************************************************************)
(* Property C09 at design level: the presentation-only transformations of  *)
(* an abstract LAS text as actions with their enabling conditions, and the *)
(* invariant that none of them changes LasRead!Read.                       *)
(*   InsBlank(i) / InsComment(i): insert a blank / '#' line after line i   *)
(*       -- enabled everywhere except inside ~Other, whose body is text    *)
(*       (with StrictOther = FALSE the restriction is lifted and TLC shows *)
(*       the invariant failing: inserting into ~O is NOT presentation-only)*)
(*   InsMany(i, k): insert k in {20, 21, 22} blank or comment lines at a   *)
(*       site of the data section (one step): more decoration lines than  *)
(*       the 21-line window lasio samples to sniff the data layout         *)
(*   ReWrap(per): re-segment the data lines of a WRAP=YES text             *)
(* Spacing, line ends, final newline and delimiter padding do not exist at *)
(* this level of abstraction: they are choices of the concretiser, i.e.    *)
(* every concretisation of one abstract text must read the same.           *)
(***************************************************************************)
EXTENDS Integers, Sequences, FiniteSets, TLC, Json, SequencesExt, FiniteSetsExt
CONSTANTS MaxSteps, StrictOther, Emit
VARIABLES text, base, n, ops
R == INSTANCE LasRead
I == INSTANCE ReadInstances WITH Family <- "none", MaxR <- 2, MaxC <- 3, MaxD <- 2, Big <- FALSE, Emit <- FALSE,
                                 inst <- [text |-> text], stage <- 0

Opts == [null_policy |-> "strict", ihe |-> FALSE]
Bases == << I!VBlock("NO", "SPACE") \o I!WBlock("null1") \o I!CBlock(2) \o I!PBlock(1, <<>>) \o I!OBlock(2)
              \o I!ABlock(2, 2, I!NoDeco(2), I!Fin),
            I!VBlock("YES", "SPACE") \o I!WBlock("null1") \o I!CBlock(3) \o I!AWrapped(2, 3, 2),
            I!VBlock("NO", "COMMA") \o I!WBlock("null1") \o I!CBlock(2) \o I!ABlock(2, 2, I!NoDeco(2), I!Fin) \o I!PBlock(1, <<>>),
            I!VBlock("NO", "TAB") \o I!WBlock("null1") \o I!CBlock(2) \o I!XBlock("X1", <<>>) \o I!ABlock(1, 2, I!NoDeco(1), I!Fin),
            \* a text column (spelled as identifiers or as date-like digit-hyphen-digit tokens by the concretiser)
            I!VBlock("NO", "SPACE") \o I!WBlock("null1") \o I!CBlock(3)
              \o I!ABlock(2, 3, I!NoDeco(2), LAMBDA i, j : IF j = 2 THEN "TEXT" ELSE "FIN"),
            \* ... and the same with declared COMMA and TAB delimiters (padding blanks around the text tokens)
            I!VBlock("NO", "COMMA") \o I!WBlock("null1") \o I!CBlock(3)
              \o I!ABlock(2, 3, I!NoDeco(2), LAMBDA i, j : IF j = 2 THEN "TEXT" ELSE "FIN"),
            I!VBlock("NO", "TAB") \o I!WBlock("null1") \o I!CBlock(3)
              \o I!ABlock(2, 3, I!NoDeco(2), LAMBDA i, j : IF j = 3 THEN "TEXT" ELSE "FIN") >>

SecAt(t, i) == IF i = 0 \/ R!SectionOf(t, i) = 0 THEN "none" ELSE t[R!SectionOf(t, i)].sec
InsertAfter(t, i, ln) == SubSeq(t, 1, i) \o <<ln>> \o SubSeq(t, i + 1, Len(t))
CanInsert(t, i) == i >= 1 /\ (StrictOther => SecAt(t, i) # "O")      \* i >= 1: ~V stays the first line (a leading blank line is
                                                                   \* covered by the concretiser's padding choices)
DataIdx(t) == {i \in DOMAIN t : t[i].k = "data"}
\* the token stream of the data section cut into lines of `per` tokens -- at ANY token boundary, also across depth steps
ReWrapped(t, per) ==
    LET flat == FlattenSeq(R!Rows(t))  nt == Len(flat)  a == R!TitleOf(t, "A")
        lines == [q \in 1..((nt + per - 1) \div per) |->
                    [k |-> "data", cells |-> SubSeq(flat, (q - 1) * per + 1, IF q * per <= nt THEN q * per ELSE nt)]]
    IN SubSeq(t, 1, a) \o lines \o SubSeq(t, R!NextTitle(t, a), Len(t))

Init == /\ \E b \in DOMAIN Bases : base = b /\ text = Bases[b]
        /\ n = 0 /\ ops = <<>>
RECURSIVE InsertMany(_, _, _, _)
InsertMany(t, i, ln, k) == IF k = 0 THEN t ELSE InsertMany(InsertAfter(t, i, ln), i, ln, k - 1)
Step(newtext, op) == text' = newtext /\ n' = n + 1 /\ ops' = Append(ops, op) /\ UNCHANGED base
Next == /\ n < MaxSteps
        /\ \/ \E i \in 1..Len(text) : CanInsert(text, i) /\ Step(InsertAfter(text, i, [k |-> "blank"]), <<"blank", i>>)
           \/ \E i \in 1..Len(text) : CanInsert(text, i) /\ Step(InsertAfter(text, i, [k |-> "comment"]), <<"comment", i>>)
           \/ \E i \in 1..Len(text), k \in {20, 21, 22}, kind \in {"blank", "comment"} :
                 /\ SecAt(text, i) = "A" /\ CanInsert(text, i) /\ Len(text) < 40
                 /\ n = MaxSteps - 1          \* as the last step only: the long texts are not transformed further
                 /\ Step(InsertMany(text, i, [k |-> kind], k), <<"many-" \o kind, i, k>>)
           \/ /\ R!Wrap(text) = "YES" /\ \A i \in R!BodyIdx(text, R!TitleOf(text, "A")) : text[i].k = "data"
              /\ \E per \in 1..(2 * R!NCols(R!Rows(text))) : Step(ReWrapped(text, per), <<"rewrap", per>>)
Spec == Init /\ [][Next]_<<text, base, n, ops>>

PresentationOnly == R!Read(text, Opts) = R!Read(Bases[base], Opts)
StaysLegal == R!LegalText(text)
EmitText == Emit => PrintT(ToJson([base |-> base, text |-> text, ops |-> ops]))
View == <<text, base>>
=============================================================================
