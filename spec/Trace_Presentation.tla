-------------------------- MODULE Trace_Presentation --------------------------
(* Property C09: metamorphic pairs.  An event carries, for a base file and a  *)
(* transformed file, the section letter of every base line (kinds), the list  *)
(* of transformations with their sites, and the digests of the two complete   *)
(* read results.  TLC checks that every transformation was enabled where it   *)
(* was applied (Presentation.tla: nothing is inserted into ~Other, re-wrapping*)
(* only for WRAP=YES) and that the result is unchanged.                       *)
EXTENDS TraceBase, FiniteSets
VARIABLE done
TInit == tid \in 1..NT /\ l = 1 /\ done = FALSE

\* the section a line inserted after base line i would belong to ("none" before the first title)
SecAt(kinds, i) == IF i = 0 THEN "none" ELSE kinds[i]
Enabled(kinds, wrapped, op) ==
    CASE op.op \in {"blank", "comment"} -> op.at \in 0..Len(kinds) /\ SecAt(kinds, op.at) # "O"
      [] op.op = "rewrap"               -> wrapped
      [] op.op \in {"pad", "crlf", "cr2lf", "nofinalnl", "respell", "delimpad", "delimpad-text"} -> TRUE
      [] OTHER -> FALSE
\* recorded finding D34: padding blanks around a TEXT value under a declared COMMA or TAB delimiter are kept as part of the value
KnownD34 == \E j \in DOMAIN Ev.ops : Ev.ops[j].op = "delimpad-text"
TPair == /\ Ev.op = "pair" /\ done' = TRUE
         /\ Chk("Harness.OpsEnabled", \A j \in DOMAIN Ev.ops : Enabled(Ev.kinds, Ev.wrapped, Ev.ops[j]))
         /\ Chk("C09.SameResult", Ev.d0 = Ev.d1 \/ KnownD34)
         /\ Chk("C09.SameResult.known-D34", ~KnownD34 \/ Ev.d0 = Ev.d1)
         /\ Chk("C09.BothReadable", Ev.d0 # "EXC" /\ Ev.d1 # "EXC")
TNext == HasNext /\ Advance /\ TPair
TSpec == TInit /\ [][TNext]_<<tid, l, done>>
=============================================================================
