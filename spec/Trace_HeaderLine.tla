-------------------------- MODULE Trace_HeaderLine --------------------------
(* Property C04: observed results of lasio.reader.read_header_line on laid-out *)
(* lines against HeaderLine!Parse.  One trace = one batch of observations.     *)
EXTENDS TraceBase
VARIABLE k
L == INSTANCE HeaderLine
A == INSTANCE HeaderLineAlgo
TInit == tid \in 1..NT /\ l = 1 /\ k = 0
Obs == [name |-> Ev.obs[1], unit |-> Ev.obs[2], value |-> Ev.obs[3], descr |-> Ev.obs[4]]
Exp == [name |-> L!Strip(Ev.f[1]), unit |-> Ev.f[2], value |-> L!Strip(Ev.f[3]), descr |-> L!Strip(Ev.f[4])]
TLine == /\ Ev.op = "line" /\ k' = k + 1
         /\ Chk("Harness.Conformant", L!Parse(Ev.line, Ev.sec) = Exp)         \* the generator laid out conformant fields
         /\ Chk("C04.NoException", Ev.exc = "")
         /\ Ev.exc = "" =>
              /\ Chk("C04.Parse", L!KnownD26(Ev.line, Ev.sec) \/ Obs = L!Parse(Ev.line, Ev.sec))
              /\ Chk("C04.Parse.known-D26", ~L!KnownD26(Ev.line, Ev.sec) \/ Obs = L!Parse(Ev.line, Ev.sec))
              /\ Chk("Drift.HeaderLineAlgo", Obs = A!AlgoParse(Ev.line, Ev.sec))       \* algorithm layer vs implementation
TNext == HasNext /\ Advance /\ TLine
TSpec == TInit /\ [][TNext]_<<tid, l, k>>
=============================================================================
