------------------------------- MODULE LasRead -------------------------------
(***************************************************************************)
(* Intent layer for reading a LAS text (properties C02 C05 C06 C07 C09 C19).*)
(*                                                                         *)
(* An abstract text is a sequence of lines:                                *)
(*   [k |-> "title", sec]   sec in {"V","W","C","P","O","A"} or a custom   *)
(*                          section id ("X1", "X2", ...)                   *)
(*   [k |-> "item", m, v]   header item: mnemonic id m, value id v         *)
(*   [k |-> "free", id]     a line of ~Other text                          *)
(*   [k |-> "data", cells]  one physical data line; a cell is               *)
(*                          [id, cls], cls in {"FIN","NULLEQ","NEAR","TEXT","ZERO"}*)
(*   [k |-> "blank"], [k |-> "comment"], [k |-> "junk", id]                *)
(* How a line is spelled (title style, padding, number spelling, newline)  *)
(* is presentation and lives in the harness' concretiser -- by C09 it must *)
(* not matter.                                                             *)
(*                                                                         *)
(* Read(text, o) is THE expected result: every line belongs to the section *)
(* whose title precedes it; only ~V's VERS/WRAP/DLM and ~W's NULL steer.   *)
(***************************************************************************)
EXTENDS Integers, Sequences, FiniteSets, SequencesExt, FiniteSetsExt

Std == {"V", "W", "C", "P", "O", "A"}
IsTitle(ln) == ln.k = "title"
TitlesAt(text) == {i \in DOMAIN text : IsTitle(text[i])}
SectionOf(text, i) == LET t == {j \in TitlesAt(text) : j <= i} IN IF t = {} THEN 0 ELSE Max(t)
NextTitle(text, t) == LET n == {j \in TitlesAt(text) : j > t} IN IF n = {} THEN Len(text) + 1 ELSE Min(n)
BodyIdx(text, t) == (t + 1)..(NextTitle(text, t) - 1)
TitleOf(text, sec) == LET t == {i \in TitlesAt(text) : text[i].sec = sec} IN IF t = {} THEN 0 ELSE Max(t)   \* a later duplicate wins
SecName(sec) == CASE sec = "V" -> "Version" [] sec = "W" -> "Well" [] sec = "C" -> "Curves"
                  [] sec = "P" -> "Parameter" [] sec = "O" -> "Other" [] OTHER -> sec

\* subsequence of the body lines of section t selected by predicate on the line
BodyLines(text, t) == IF t = 0 THEN <<>> ELSE LET n == NextTitle(text, t) IN [j \in 1..(n - 1 - t) |-> t + j]
Select(text, t, kind) == LET b == BodyLines(text, t) IN SelectSeq([j \in DOMAIN b |-> text[b[j]]], LAMBDA ln : ln.k = kind)

Items(text, t)  == LET its == Select(text, t, "item") IN [j \in DOMAIN its |-> <<its[j].m, its[j].v>>]
ItemV(text, sec, m, default) ==                       \* value id of the first item named m in section sec
    LET its == Select(text, TitleOf(text, sec), "item")
        hit == {j \in DOMAIN its : its[j].m = m}
    IN IF hit = {} THEN default ELSE its[Min(hit)].v

\* steering: only ~Version's VERS, WRAP, DLM and ~Well's NULL
Wrap(text) == ItemV(text, "V", "WRAP", "NO")
Dlm(text)  == ItemV(text, "V", "DLM", "SPACE")
NullV(text) == ItemV(text, "W", "NULL", "none")

\* header-item sections, keyed by name
HeaderSecs(text) == {text[t].sec : t \in TitlesAt(text)} \ {"O", "A"}
Header(text) == [n \in {SecName(s) : s \in HeaderSecs(text)} |->
                    LET s == CHOOSE s \in HeaderSecs(text) : SecName(s) = n IN Items(text, TitleOf(text, s))]
\* ~Other keeps every physical line of its body as text: free lines (their id), blank lines (0), '#' lines (-1)
OtherText(text) == LET t == TitleOf(text, "O")  b == BodyLines(text, t)
                   IN [j \in DOMAIN b |-> CASE text[b[j]].k = "free" -> text[b[j]].id
                                             [] text[b[j]].k = "blank" -> 0
                                             [] OTHER -> -1]
CustomOrder(text) == LET ts == SetToSortSeq({t \in TitlesAt(text) : text[t].sec \notin Std /\ TitleOf(text, text[t].sec) = t}, <)
                     IN [j \in DOMAIN ts |-> text[ts[j]].sec]

\* data: the physical data lines of ~A, in order; blank and comment lines do not count
DataLines(text) == LET dl == Select(text, TitleOf(text, "A"), "data") IN [j \in DOMAIN dl |-> dl[j].cells]
Flat(rows) == FlattenSeq(rows)
Declared(text) == Items(text, TitleOf(text, "C"))
\* rows of the data matrix: one per line, or (WRAP YES) the token stream cut by the declared curve count
Rows(text) ==
    LET dl == DataLines(text)  d == Len(Declared(text))
    IN IF Wrap(text) = "YES" /\ d > 0
       THEN LET f == Flat(dl) IN [r \in 1..(Len(f) \div d) |-> SubSeq(f, (r - 1) * d + 1, r * d)]
       ELSE dl
Rectangular(rows) == \A i, j \in DOMAIN rows : Len(rows[i]) = Len(rows[j])
NCols(rows) == IF rows = <<>> THEN 0 ELSE Len(rows[1])

\* NULL rule: a cell becomes NaN iff it is numerically equal to ~W NULL, lies in a non-index numeric column, policy strict
TextCol(rows, c) == \E r \in DOMAIN rows : rows[r][c].cls = "TEXT"
\* result encoding of a cell: -1 NaN; a FIN cell its id; a kept NULL-equal cell -2; a kept near-NULL cell -3; text 1000000 + id;
\* a ZERO cell (the number zero in any spelling; only generated when NULL is not 0) -4
CellOut(rows, r, c, o, hasNull) ==
    IF rows[r][c].cls = "NULLEQ" /\ c > 1 /\ o.null_policy = "strict" /\ hasNull /\ ~TextCol(rows, c)
    THEN -1
    ELSE CASE rows[r][c].cls = "FIN" -> rows[r][c].id
           [] rows[r][c].cls = "NULLEQ" -> -2
           [] rows[r][c].cls = "NEAR" -> -3
           [] rows[r][c].cls = "ZERO" -> -4
           [] rows[r][c].cls = "TEXT" -> 1000000 + rows[r][c].id
\* curves: declared first (with their names), surplus columns unnamed after them, missing columns NaN of the common length
Curves(text, o) ==
    LET rows == Rows(text)  dcl == Declared(text)  d == Len(dcl)  c == NCols(rows)
        n == IF c > d THEN c ELSE d
        hasNull == NullV(text) # "none"
    IN [j \in 1..n |->
          [m    |-> IF j <= d THEN dcl[j][1] ELSE "",
           data |-> IF j <= c THEN [r \in DOMAIN rows |-> CellOut(rows, r, j, o, hasNull)]
                    ELSE [r \in DOMAIN rows |-> -1]]]

JunkAt(text) == {i \in DOMAIN text : text[i].k = "junk"}
Read(text, o) == [header |-> Header(text), other |-> OtherText(text), custom |-> CustomOrder(text),
                  curves |-> Curves(text, o)]

\* the domain the properties speak about
LegalText(text) ==
    /\ Len(text) > 0 /\ IsTitle(text[1]) /\ text[1].sec = "V"
    /\ \A s \in Std : Cardinality({t \in TitlesAt(text) : text[t].sec = s}) <= 1
    /\ \A i \in DOMAIN text :
          LET t == SectionOf(text, i)  s == IF t = 0 THEN "none" ELSE text[t].sec IN
          CASE text[i].k = "item" -> s \notin {"O", "A", "none"}
            [] text[i].k = "free" -> s = "O"
            [] text[i].k = "data" -> s = "A"
            [] text[i].k = "junk" -> s \notin {"O", "A", "C", "none"}
            [] text[i].k \in {"blank", "comment"} -> TRUE
            [] OTHER -> TRUE
    /\ LET ot == OtherText(text) IN ot # <<>> => ot[1] # 0 /\ \E j \in DOMAIN ot : ot[j] > 0   \* (an all-blank ~O is indistinguishable from an empty one)
    /\ Rectangular(Rows(text))
    /\ (Wrap(text) = "YES" => Len(Declared(text)) > 0 /\ Len(Flat(DataLines(text))) % Len(Declared(text)) = 0)
=============================================================================
