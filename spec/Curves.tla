------------------------------- MODULE Curves -------------------------------
(***************************************************************************)
(* Intent layer for the curve collection of a LASFile (property C14): it   *)
(* behaves like a plain ordered list of (name, metadata, 1-D array).       *)
(* A curve is [id, o, s, m, a]: identity, original mnemonic, session       *)
(* mnemonic, metadata class (unit/descr/value bits), array identity.       *)
(* ExpList is the list model; the session names are NOT part of it (they   *)
(* are governed by C13) -- they only have to agree across the views.       *)
(***************************************************************************)
EXTENDS Integers, Sequences, FiniteSets, SequencesExt, FiniteSetsExt, PyList, TLC

Core(L)   == [i \in DOMAIN L |-> <<L[i].id, L[i].o, L[i].m, L[i].a>>]
Useful(o) == IF o \in {"", " "} THEN "UNKNOWN" ELSE o
FirstS(L, k) == LET m == {i \in DOMAIN L : L[i].s = k} IN IF m = {} THEN 0 ELSE Min(m)
\* Sections that lasio read with a case option compare names case-insensitively.  The projection then logs, next to every
\* session name s, original name o and lookup key k, its comparison key (sf, of, kf: the upper-cased string); without these
\* fields (fresh LASFiles, the CurvesAlgo model) the names are their own comparison keys.
SF(c) == IF "sf" \in DOMAIN c THEN c.sf ELSE c.s
OF(c) == IF "of" \in DOMAIN c THEN c.of ELSE Useful(c.o)
KF(e) == IF "kf" \in DOMAIN e THEN e.kf ELSE e.k
FirstK(L, e) == LET m == {i \in DOMAIN L : SF(L[i]) = KF(e)} IN IF m = {} THEN 0 ELSE Min(m)
New(id, n, a) == <<id, n, 0, a>>
\* update codes: 0 = leave metadata alone, 1 = unit, 7 = unit+descr+value, 8 = reset all three to empty (falsy) values
NewMeta(old, m) == IF m = 0 THEN old ELSE IF m = 8 THEN 0 ELSE IF m > old THEN m ELSE old
\* metadata classes are bit sets (1 = unit, 7 = unit, descr and value): an update adds the fields it names
Upd(c, a, m)  == <<c[1], c[2], NewMeta(c[3], m), IF a = 0 THEN c[4] ELSE a>>

\* which call fails, and how (a failing call changes nothing)
ExpExc(L, e) ==
    CASE e.op = "delete_ix"    -> IF PyPos(Len(L), e.i) = 0 THEN "IndexError" ELSE ""
      [] e.op = "delete_mn"    -> IF FirstK(L, e) = 0 THEN "ValueError" ELSE ""
      [] e.op = "update_mn"    -> IF FirstK(L, e) = 0 THEN "ValueError" ELSE ""
      [] e.op = "update_ix"    -> IF PyPos(Len(L), e.i) = 0 THEN "IndexError" ELSE ""
      [] e.op = "replace_item" -> IF PyPos(Len(L), e.i) = 0 THEN "IndexError" ELSE ""
      [] e.op = "setitem_item" -> IF e.k # Useful(e.n) THEN "KeyError" ELSE ""
      [] OTHER                 -> ""

\* the plain list model
ExpCore(L, e) ==
    LET C == Core(L) IN
    IF ExpExc(L, e) # "" THEN C ELSE
    CASE e.op = "append_curve" -> Append(C, New(e.nid, e.n, e.a))
      [] e.op = "insert_curve" -> PyInsert(C, e.i, New(e.nid, e.n, e.a))
      [] e.op = "delete_ix"    -> RemoveAt(C, PyPos(Len(L), e.i))
      [] e.op = "delete_mn"    -> RemoveAt(C, FirstK(L, e))
      [] e.op = "update_mn"    -> [C EXCEPT ![FirstK(L, e)] = Upd(@, e.a, e.m)]
      [] e.op = "update_ix"    -> [C EXCEPT ![PyPos(Len(L), e.i)] = Upd(@, e.a, e.m)]
      [] e.op = "replace_item" -> [C EXCEPT ![PyPos(Len(L), e.i)] = New(e.nid, e.n, e.a)]
      [] e.op = "setitem_arr"  -> IF FirstK(L, e) = 0 THEN Append(C, New(e.nid, e.k, e.a))
                                  ELSE [C EXCEPT ![FirstK(L, e)] = Upd(@, e.a, 0)]
      [] e.op = "setitem_item" -> IF FirstK(L, e) = 0 THEN Append(C, New(e.nid, e.n, e.a))
                                  ELSE [C EXCEPT ![FirstK(L, e)] = New(e.nid, e.n, e.a)]
      [] OTHER -> C

\* set_data(A, names, truncate): column i of A becomes the data of curve i; the list is extended by
\* unnamed curves up to the width of A (with truncate the surplus columns are dropped instead);
\* names[i] becomes the name of curve i for i < Len(names); names beyond a shorter list: unconstrained.
SetDataOK(L, e, P) ==
    LET n  == Len(L)
        w  == Len(e.cols)
        n2 == IF e.truncate THEN n ELSE IF w > n THEN w ELSE n
    IN /\ Len(P) = n2
       /\ \A i \in 1..n2 : /\ i <= w => P[i].a = e.cols[i]
                           /\ i <= n => P[i].id = L[i].id /\ P[i].m = L[i].m
                           /\ i > n  => P[i].id = e.nids[i - n] /\ P[i].m = 0
                           /\ IF i <= Len(e.names) THEN P[i].o = e.names[i]
                              ELSE IF Len(e.names) = 0 THEN P[i].o = (IF i <= n THEN L[i].o ELSE "")
                              ELSE TRUE

\* set_data (re)names every curve, so afterwards the session names are the fresh numbering of the names: unique names bare,
\* duplicates :1..:n in order (this is what keys() / las[name] expose)
NamesFresh(P) == \A i \in DOMAIN P :
                    LET g == {j \in DOMAIN P : OF(P[j]) = OF(P[i])}
                    IN P[i].s = IF Cardinality(g) > 1 THEN Useful(P[i].o) \o ":" \o ToString(Cardinality({j \in g : j <= i}))
                                ELSE Useful(P[i].o)
C_SetDataNames(e, P) == (e.op = "set_data" /\ e.exc = "") => NamesFresh(P)
C_List(L, e, P)  == IF e.op = "set_data" THEN SetDataOK(L, e, P) ELSE Core(P) = ExpCore(L, e)
C_Exc(L, e)      == e.op # "set_data" => e.exc = ExpExc(L, e)
C_Frame(O, e, P) == \A t \in DOMAIN O : t # e.t => P[t] = O[t]           \* the other LASFile is untouched

\* the views of one object
V_Keys(L, v)   == v.keys = Sess(L)
V_Values(L, v) == v.values = [i \in DOMAIN L |-> L[i].a]
V_Items(L, v)  == v.items = [i \in DOMAIN L |-> <<L[i].s, L[i].a>>]
V_Index(L, v)  == Len(L) > 0 => v.index = L[1].a
V_Data(L, v)   == Len(L) > 0 => v.data = [i \in DOMAIN L |-> L[i].a]
V_ByInt(L, v)  == \A q \in Range(v.byint)  : q.a = LET p == PyPos(Len(L), q.i) IN IF p = 0 THEN 0 ELSE L[p].a
V_ByName(L, v) == \A q \in Range(v.byname) : LET p == FirstK(L, q)  x == IF p = 0 THEN 0 ELSE L[p].a
                                               IN q.a = x /\ q.gc = x          \* las[k] and las.get_curve(k)
=============================================================================
