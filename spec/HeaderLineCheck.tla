--------------------------- MODULE HeaderLineCheck ---------------------------
(* TLC checks the theorem  Parse(Format(f, pads), sec) = Expected(f)  for every *)
(* field tuple of the (abstract-character) pools, every padding tuple and every *)
(* section kind: on conformant fields the documented grammar inverts formatting *)
(* and is unambiguous.  Two-stage generation (fields, then paddings).           *)
EXTENDS Integers, Sequences, FiniteSets, TLC
CONSTANTS Big
VARIABLES f, p, sec, stage
L == INSTANCE HeaderLine
A == INSTANCE HeaderLineAlgo
PadSet == IF Big THEN {<<>>, <<32>>, <<32, 32, 32>>, <<9>>, <<32, 9>>} ELSE {<<>>, <<32>>, <<9>>}
a == 97  one == 49  two == 50  zero == 48  three == 51  slash == 47  q == 34  lb == 91  rb == 93
Mn == {<<a>>, <<a, a>>, <<a, 32, a>>, <<a, one>>, <<233>>}
Un == {<<>>, <<a>>, <<a, 46, a>>, <<a, 58, a>>, <<37>>, <<one, slash, a>>, <<104, 104, 58, 109, 109>>}
Va == {<<>>, <<a>>, <<one, two>>, <<zero, three>>, <<a, 32, two, one>>, <<45, one, 46, two>>, <<a, 32, a>>, <<lb, a, rb>>,
       <<a, 46, a>>, <<104, 104>>, <<a, 32, 72, 72>>, <<q, a, q>>}
Ti == {<<one, three, 58, zero, zero>>, <<two, three, 58, 53, 57>>, <<zero, zero, 58, zero, one>>,
       <<one, two, 58, three, zero, 58, 52, 53>>, <<57, 58, zero, 53>>, <<one, three, 58, zero, zero, 32, a>>,
       <<a, 32, one, three, 58, zero, zero>>}
De == {<<>>, <<a>>, <<a, 32, a>>, <<lb, a, rb>>, <<a, 46, a>>, <<one, 32, a>>}
DeColon == {<<a, 58, 32, a>>, <<a, 32, 58, 32, a>>}
Secs == {"Version", "Well", "Curves", "Parameter", "Custom", "None"}
AllDigits(u) == u # <<>> /\ \A i \in DOMAIN u : u[i] \in 48..57
Conformant(ff, s) ==
    /\ ~AllDigits(ff.u)
    /\ ~(s = "Curves" /\ \E i \in 1..(Len(ff.m \o <<46>> \o ff.u) - 1) : (ff.m \o <<46>> \o ff.u)[i] = 46 /\ (ff.m \o <<46>> \o ff.u)[i + 1] = 46)
    /\ (\E i \in DOMAIN ff.v : ff.v[i] = 58) => s = "Parameter" /\ ff.v \in Ti         \* colons in values: clock times, only in ~Parameter
    /\ (\E i \in DOMAIN ff.d : ff.d[i] = 58) => s = "Parameter"
Fields == {ff \in [m : Mn, u : Un, v : Va \cup Ti, d : De \cup DeColon] : TRUE}
Init == stage = 0 /\ f = [m |-> <<a>>, u |-> <<>>, v |-> <<>>, d |-> <<>>] /\ p = [i \in 1..6 |-> <<>>] /\ sec = "None"
Next == \/ /\ stage = 0 /\ stage' = 1 /\ UNCHANGED p
           /\ \E ff \in Fields, s \in Secs : Conformant(ff, s) /\ f' = ff /\ sec' = s
        \/ /\ stage = 1 /\ stage' = 2 /\ UNCHANGED <<f, sec>>
           /\ \E pp \in [1..6 -> PadSet] :
                /\ (f.v # <<>> => pp[3] # <<>>)                                  \* unit and value need a separator
                /\ ((\E i \in DOMAIN f.d : f.d[i] = 58) => pp[4] # <<>> /\ pp[4][Len(pp[4])] = 32 /\ pp[5] # <<>> /\ pp[5][1] = 32)
                /\ p' = pp
Spec == Init /\ [][Next]_<<f, p, sec, stage>>
Inverts == stage = 2 => L!Parse(L!Format(f, p), sec) = L!Expected(f)
\* the regex cascade computes the same parse, except on the recorded class D26
AlgoRefinesIntent == stage = 2 => (A!AlgoParse(L!Format(f, p), sec) = L!Parse(L!Format(f, p), sec) \/ L!KnownD26(L!Format(f, p), sec))
\* without the exception the refinement must fail (the design-level counterexample of D26)
AlgoEqualsIntent  == stage = 2 => A!AlgoParse(L!Format(f, p), sec) = L!Parse(L!Format(f, p), sec)
=============================================================================
