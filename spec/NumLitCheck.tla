---------------------------- MODULE NumLitCheck ----------------------------
(* TLC checks, for every string up to MaxLen over Alphabet, that the DFA and *)
(* the declarative grammar of NumLit.tla define the same language, and       *)
(* prints the accepted strings (the harness cross-checks them with Python's  *)
(* own decimal grammar).                                                     *)
EXTENDS Integers, Sequences, FiniteSets, TLC, Json
CONSTANTS Alphabet, MaxLen, Emit
VARIABLES s
N == INSTANCE NumLit
Init == s = <<>>
Next == Len(s) < MaxLen /\ \E c \in Alphabet : s' = Append(s, c)
Spec == Init /\ [][Next]_s
Agree == N!IsLiteralDFA(s) = N!IsLiteralDecl(s)
EmitLit == (Emit /\ N!IsLiteralDFA(s)) => PrintT(ToJson([s |-> s, amb |-> N!Ambiguous(s), mark |-> N!HasMark(s), exp |-> N!HasExp(s)]))
=============================================================================
