--------------------------- MODULE Trace_Section ---------------------------
(* Validates recorded behaviours of real lasio.SectionItems objects against *)
(* the intent layer (Section.tla).  Properties C13 and C15.                 *)
EXTENDS TraceBase, FiniteSets, SequencesExt
VARIABLES items, xf
S == INSTANCE Section WITH Up <- File.up, Blank <- ToSet(File.blank)

Logged == Ev.post

TInit == tid \in 1..NT /\ l = 1 /\ items = <<>> /\ xf = FALSE

StateChecks(x, it) ==
    /\ Chk("C13.Distinct", S!C_Distinct(x, it) \/ S!SuffixCollision(x, it))
    /\ Chk("C13.Distinct.known-D14", S!C_Distinct(x, it) \/ ~S!SuffixCollision(x, it))
    /\ Chk("C13.Resolves", S!C_Resolves(x, it) \/ ~S!C_Distinct(x, it))

TStart == /\ Ev.op = "init" /\ items' = Logged /\ xf' = Ev.xf
          /\ StateChecks(Ev.xf, Logged)

TOp == /\ Ev.op \in {"append", "insert", "delidx", "delkey", "setitem", "setvalue", "get", "setidx", "delslice"}
       /\ items' = Logged /\ UNCHANGED xf
       /\ Chk("C15.Ids",       S!C_Ids(xf, items, Ev, Logged))
       /\ Chk("C15.Exc",       S!C_Exc(xf, items, Ev, Logged))
       /\ Chk("C13.Frozen",    S!C_Frozen(xf, items, Ev, Logged))
       /\ Chk("C15.Values",    S!C_Values(xf, items, Ev, Logged))
       /\ Chk("C13.Numbered",  S!C_Numbered(xf, items, Ev, Logged))
       /\ Chk("C13.Untouched", S!C_Untouched(xf, items, Ev, Logged))
       /\ Chk("C15.Ret",       S!C_Ret(xf, items, Ev, Logged))
       /\ StateChecks(xf, Logged)

TProbe == /\ Ev.op = "probe" /\ UNCHANGED <<items, xf>>
          /\ Chk("C15.ProbeFrame", Logged = items)
          /\ \A i \in DOMAIN Ev.keys   : Chk("C15.LookupsAgree", S!ProbeKeyOK(xf, items, Ev.keys[i]))
          /\ ("ckeys" \in DOMAIN Ev) => \A i \in DOMAIN Ev.ckeys : Chk("C15.LookupsAgree.copy", S!ProbeKeyOK(xf, items, Ev.ckeys[i]))
          /\ \A i \in DOMAIN Ev.keys   : Chk("C13.LASFileAccess", S!ProbeLasOK(xf, items, Ev.keys[i]))
          /\ \A i \in DOMAIN Ev.ints   : Chk("C15.IntIsPosition", S!ProbeIntOK(items, Ev.ints[i]))
          /\ \A i \in DOMAIN Ev.slices : Chk("C15.SliceIsList", S!ProbeSliceOK(items, Ev.slices[i]))

\* the section written by LASFile.write() and read back (mnemonic_case = preserve)
TRoundTrip == /\ Ev.op = "roundtrip" /\ UNCHANGED <<items, xf>>
              /\ Chk("C13.RoundTrip.readable", Ev.exc = "")
              /\ Ev.exc = "" => Chk("C13.RoundTrip", S!RoundTripOK(items, Ev.post))
TNext == HasNext /\ Advance /\ (TStart \/ TOp \/ TProbe \/ TRoundTrip)
TSpec == TInit /\ [][TNext]_<<tid, l, items, xf>>
=============================================================================
