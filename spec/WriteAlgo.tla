------------------------------ MODULE WriteAlgo ------------------------------
(***************************************************************************)
(* Algorithm layer for C16: lasio's decision when to refresh STRT/STOP/STEP *)
(* (writer.py: index_initial vs index, STOP mismatch) as a small machine,   *)
(* used (1) to check with TLC that whenever the statement demands truthful  *)
(* STRT/STOP/STEP the algorithm refreshes them, over all histories          *)
(*    {build | read} ; {edit index | edit other | edit header}* ; write^k   *)
(* and (2) to generate those histories for replay on real LASFile objects.  *)
(***************************************************************************)
EXTENDS Integers, Sequences, TLC, Json
CONSTANTS Shapes, OptSets, MaxOps, Emit
VARIABLES st, last
vars == <<st, last>>

\* st: origin, shape, idx0 (an index_initial exists), changed (index differs from index_initial),
\*     stopNum (STOP.value is still the number read from the file and equals the last sample),
\*     truthful (header STRT/STOP/STEP describe the current index), must (the statement demands truthfulness), n
Init == st = [origin |-> "none", shape |-> "none", idx0 |-> FALSE, changed |-> FALSE, stopOK |-> FALSE,
              truthful |-> FALSE, must |-> FALSE, n |-> 0]
        /\ last = [op |-> "init"]

Origin == /\ st.origin = "none"
          /\ \E k \in {"build", "read_ok", "read_badstop"}, sh \in Shapes :
               /\ st' = [origin |-> k, shape |-> sh, idx0 |-> (k # "build"), changed |-> FALSE,
                         stopOK |-> (k = "read_ok"), truthful |-> (k = "read_ok"),
                         must |-> (k # "read_ok"), n |-> 1]
               /\ last' = [op |-> "origin", kind |-> k, shape |-> sh]
Edit == /\ st.origin # "none" /\ st.n < MaxOps
        /\ \E w \in {"index", "other", "header"} :
             /\ st' = [st EXCEPT !.changed = (@ \/ w = "index"),
                                 !.truthful = (@ /\ w # "index"),
                                 !.must = (@ \/ w = "index"), !.n = @ + 1]
             /\ last' = [op |-> "edit", what |-> w]
\* writer.write: refresh iff index_initial is None, or index != index_initial, or index_initial[-1] != STOP.value
Refresh == ~st.idx0 \/ st.changed \/ ~st.stopOK
Write == /\ st.origin # "none" /\ st.n < MaxOps
         /\ \E o \in OptSets :
              /\ st' = [st EXCEPT !.truthful = (@ \/ Refresh),
                                  !.stopOK = (@ /\ ~Refresh),      \* a refresh stores STOP as formatted text
                                  !.n = @ + 1]
              /\ last' = [op |-> "write", opts |-> o, refresh |-> Refresh]
Next == Origin \/ Edit \/ Write
Spec == Init /\ [][Next]_vars

\* the statement: whenever truthfulness is demanded, what was just written is truthful
TruthfulWhenDemanded == (last.op = "write" /\ st.must) => st.truthful
EmitEdge == Emit => PrintT(ToJson([pre |-> st, e |-> last', post |-> st']))
View == st
=============================================================================
