--------------------------- MODULE Trace_Extended ---------------------------
(* Observations of real lasio on the instances of Extended.tla.  These are    *)
(* behaviours beyond the listed properties: a false clause is reported as an  *)
(* "extended" deviation in the evidence, never as a VIOLATION.                *)
EXTENDS TraceBase
VARIABLE done
TInit == tid \in 1..NT /\ l = 1 /\ done = FALSE
TObs == /\ Ev.op = "ext" /\ done' = TRUE
        /\ Chk("EXT." \o Ev.kind, Ev.obs = Ev.expect)
TNext == HasNext /\ Advance /\ TObs
TSpec == TInit /\ [][TNext]_<<tid, l, done>>
=============================================================================
