---------------------------- MODULE Trace_NumLit ----------------------------
(* Property C08: observed type of header values read by real lasio against   *)
(* NumLit!Class.  One trace = one batch of observations (events).            *)
EXTENDS TraceBase
VARIABLE k
N == INSTANCE NumLit
TInit == tid \in 1..NT /\ l = 1 /\ k = 0
TNum == /\ Ev.op = "num" /\ k' = k + 1
        /\ (N!Ambiguous(Ev.s) /\ ~N!Exempt(Ev.sec, Ev.mn)) \/
             /\ Chk("C08.Class", Ev.obs = N!Class(Ev.s, Ev.sec, Ev.mn, Ev.fits64, Ev.finite))
             /\ Chk("C08.Value", Ev.eq)
TNext == HasNext /\ Advance /\ TNum
TSpec == TInit /\ [][TNext]_<<tid, l, k>>
=============================================================================
