---------------------------- MODULE HandlesAlgo ----------------------------
(***************************************************************************)
(* Algorithm layer for C20: the way lasio structures its calls.            *)
(*   read : helper opens inside `with` blocks (BOM sniff, chardet sample,  *)
(*          ad-hoc encoding probes), then the main handle, everything      *)
(*          inside try/finally that closes the main handle                 *)
(*   write / to_csv : open, body, close -- inside try/finally iff          *)
(*          WriteHasFinally (FALSE models the code before the repair of    *)
(*          D20 and must violate NoLeak).                                  *)
(* An injected I/O error may strike at every open and at every operation.  *)
(***************************************************************************)
EXTENDS Integers, Sequences, FiniteSets, TLC
CONSTANTS NHelper,          \* number of helper `with open` blocks in read
          NOps,             \* I/O operations in the body of a call
          WriteHasFinally
VARIABLES phase, kind, pc, openh, ownfile
vars == <<phase, kind, pc, openh, ownfile>>
H == INSTANCE Handles

\* program of a call: a sequence of steps
Prog(k, own) ==
    IF k = "read"
    THEN [i \in 1..(3 * NHelper) |-> <<"hopen", "hio", "hclose">>[((i - 1) % 3) + 1]]
         \o <<"open">> \o [i \in 1..NOps |-> "io"] \o <<"close">>
    ELSE (IF own THEN <<"open">> ELSE <<>>) \o [i \in 1..NOps |-> "io"] \o (IF own THEN <<"close">> ELSE <<>>)

Init == phase = "idle" /\ kind = "none" /\ pc = 0 /\ openh = {} /\ ownfile = TRUE
Begin == /\ phase = "idle"
         /\ \E k \in {"read", "write", "to_csv"}, own \in BOOLEAN :
               /\ (k = "read" => own)
               /\ kind' = k /\ ownfile' = own
               /\ openh' = IF own THEN {} ELSE {"callerfile"}
         /\ phase' = "incall" /\ pc' = 1

Cur == Prog(kind, ownfile)[pc]
Done == pc > Len(Prog(kind, ownfile))

Step == /\ phase = "incall" /\ ~Done
        /\ openh' = CASE Cur = "hopen"  -> openh \cup {"helper"}
                      [] Cur = "hclose" -> openh \ {"helper"}
                      [] Cur = "open"   -> openh \cup {"main"}
                      [] Cur = "close"  -> openh \ {"main"}
                      [] OTHER          -> openh
        /\ pc' = pc + 1 /\ UNCHANGED <<phase, kind, ownfile>>

Protected(hd) == \/ hd = "helper"                       \* `with`
                 \/ hd = "callerfile"                   \* never closed by lasio
                 \/ kind = "read"                       \* try/finally
                 \/ WriteHasFinally
\* an exception at the current step: open fails (no handle), or an operation raises; then unwind
Fault == /\ phase = "incall" /\ ~Done /\ Cur # "hclose" /\ Cur # "close"
         /\ openh' = {hd \in openh : ~Protected(hd) \/ hd = "callerfile"}
         /\ phase' = "idle" /\ pc' = 0 /\ UNCHANGED <<kind, ownfile>>
Return == /\ phase = "incall" /\ Done
          /\ phase' = "idle" /\ pc' = 0 /\ UNCHANGED <<kind, openh, ownfile>>
Reset == /\ phase = "idle" /\ pc = 0 /\ kind # "none"       \* the caller closes its own file, next call
         /\ openh' = {} /\ kind' = "none" /\ UNCHANGED <<phase, pc, ownfile>>

Next == Begin \/ Step \/ Fault \/ Return \/ Reset
Spec == Init /\ [][Next]_vars

AsHandles == [x \in openh |-> [owner |-> IF x = "callerfile" THEN "caller" ELSE "lasio", open |-> TRUE]]
NoLeak     == (phase = "idle") => H!NoLeak(AsHandles)
CallerKept == (phase = "idle" /\ kind # "none" /\ ~ownfile) => "callerfile" \in openh
=============================================================================
