----------------------------- MODULE Trace_Read -----------------------------
(***************************************************************************)
(* Validates observed results of real lasio.read() on concretised abstract *)
(* texts against the intent layer LasRead.tla.  One event per trace:       *)
(*   [prop, text, opts, res | exc, ...]                                    *)
(* prop names the property on whose behalf the instance was generated; the *)
(* clause names carry it (C05.Sections, C07.Columns, C02.EnginesAgree ...).*)
(***************************************************************************)
EXTENDS TraceBase, FiniteSets, SequencesExt, FiniteSetsExt
R == INSTANCE LasRead
VARIABLE done
TInit == tid \in 1..NT /\ l = 1 /\ done = FALSE

RECURSIVE IsSubseq(_, _)
IsSubseq(a, b) == IF a = <<>> THEN TRUE ELSE IF b = <<>> THEN FALSE
                  ELSE IF Head(a) = Head(b) THEN IsSubseq(Tail(a), Tail(b)) ELSE IsSubseq(a, Tail(b))
JunkIn(text, n) == Cardinality({i \in R!JunkAt(text) : R!SecName(text[R!SectionOf(text, i)].sec) = n})

C(n) == Ev.prop \o "." \o n
ResultOK(res, exp, text) ==
    /\ Chk(C("SectionKeys"), DOMAIN res.header = DOMAIN exp.header /\ res.extra = <<>> /\ res.defaults_ok)
    /\ DOMAIN res.header = DOMAIN exp.header =>
         \A n \in DOMAIN exp.header :
            IF JunkIn(text, n) = 0
            THEN Chk(C("Sections"), IF n = "Curves"      \* surplus data columns add unnamed curves after the declared ones (C07)
                                    THEN /\ Len(res.header[n]) >= Len(exp.header[n])
                                         /\ SubSeq(res.header[n], 1, Len(exp.header[n])) = exp.header[n]
                                    ELSE res.header[n] = exp.header[n])
            ELSE /\ Chk(C("GenuineItemsKept"), IsSubseq(exp.header[n], res.header[n]))
                 /\ Chk(C("JunkAddsAtMostItself"), Len(res.header[n]) <= Len(exp.header[n]) + JunkIn(text, n))
    /\ Chk(C("OtherText"), res.other = exp.other)
    /\ Chk(C("CustomSections"), res.custom = exp.custom)
    /\ Chk(C("CustomUnderOwnTitle"), res.own_title)           \* the key of a non-standard section is its whole title
    /\ Chk(C("CurveNames"), [j \in DOMAIN res.curves |-> res.curves[j].m] = [j \in DOMAIN exp.curves |-> exp.curves[j].m])
    /\ Chk(C("Rectangular"), \A i, j \in DOMAIN res.curves : Len(res.curves[i].data) = Len(res.curves[j].data))
    /\ Chk(C("Data"), [j \in DOMAIN res.curves |-> res.curves[j].data] = [j \in DOMAIN exp.curves |-> exp.curves[j].data])
    \* every curve is addressed by its own key, and column j of the stacked view las.data is curve j
    /\ Chk(C("KeyAddressesOwnCurve"), res.keypos = [j \in DOMAIN res.curves |-> j])
    /\ Chk(C("StackedColumns"), res.stack = [j \in DOMAIN res.curves |-> j])

TRead == /\ Ev.op = "read" /\ done' = TRUE
         /\ Chk("Harness.LegalText", R!LegalText(Ev.text))
         /\ LET exp == R!Read(Ev.text, Ev.opts)
                junk == R!JunkAt(Ev.text)
            IN IF Ev.exc # ""
               THEN IF junk = {}
                    THEN Chk(C("NoException"), FALSE)                                  \* a legal text without junk must be readable
                    ELSE /\ Chk(C("NoExceptionWithFlag"), ~Ev.opts.ihe)                \* junk may only raise without the flag,
                         /\ Chk(C("OnlyLASHeaderError"), Ev.exc = "LASHeaderError")    \* only as LASHeaderError,
                         /\ Chk(C("ErrorNamesTheLine"), Ev.excline \in junk)          \* naming a junk line
               ELSE /\ ResultOK(Ev.res, exp, Ev.text)
                    /\ (Ev.engines = 2 =>
                          /\ ResultOK(Ev.res2, exp, Ev.text)
                          /\ Chk(C("EnginesAgree"), Ev.res = Ev.res2 /\ Ev.bits_equal))
TNext == HasNext /\ Advance /\ TRead
TSpec == TInit /\ [][TNext]_<<tid, l, done>>
=============================================================================
