---------------------------- MODULE HeaderLineAlgo ----------------------------
(***************************************************************************)
(* Algorithm layer for C04: lasio's regular-expression cascade             *)
(* (reader.configure_metadata_patterns / read_header_line) transcribed as   *)
(* position arithmetic, including what backtracking does:                   *)
(*   name   : everything up to the first period                            *)
(*   unit   : optional "digits + one blank", then non-blanks; greedy, but   *)
(*            it gives characters back when the rest cannot match           *)
(*   ~Parameter first: a lazy value, then a colon that is not a clock colon *)
(*            (look-behind " HH", look-ahead "MM"), then the rest           *)
(*   then / otherwise: a greedy value, i.e. the last colon                  *)
(* The unit is the longest prefix of the greedy unit for which the rest of  *)
(* the pattern still matches: when no admissible colon lies behind the      *)
(* greedy unit, the unit shrinks to just before the LAST admissible colon   *)
(* inside it.  That is where the algorithm leaves the intent (finding D26). *)
(***************************************************************************)
EXTENDS Integers, Sequences, FiniteSets, FiniteSetsExt
L == INSTANCE HeaderLine

Valid(r, i) == r[i] = L!COLON /\ ~L!HourBefore(r, i) /\ ~L!MinuteAfter(r, i)
ValidSet(r) == {i \in DOMAIN r : Valid(r, i)}
Colons(r)   == {i \in DOMAIN r : r[i] = L!COLON}

\* <<unit end (exclusive), separator index>> chosen by the regex; 0 separator = no match of this pattern
TimePattern(r, ue) ==
    LET v == ValidSet(r)  behind == {i \in v : i >= ue}
    IN IF behind # {} THEN <<ue, Min(behind)>>
       ELSE IF v # {} THEN <<Max(v), Max(v)>>
       ELSE <<0, 0>>
LastColonPattern(r, ue) ==
    LET c == Colons(r)
    IN IF c = {} THEN <<0, 0>> ELSE IF Max(c) >= ue THEN <<ue, Max(c)>> ELSE <<Max(c), Max(c)>>

\* ~Curves only: "a mnemonic ending in a period" -- when a non-blank is directly followed by two periods (before the last
\* colon), the name runs up to and including the first of the LAST such pair of periods
DoubleDots(s) == {i \in 1..(Len(s) - 2) : s[i] # L!SP /\ s[i + 1] = L!DOT /\ s[i + 2] = L!DOT}
PairsBefore(s, lim) == {i \in 1..(Len(s) - 1) : s[i] = L!DOT /\ s[i + 1] = L!DOT /\ i + 1 < lim}
CurvesDotted(s, sec) == sec = "Curves" /\ L!Last(s, L!COLON) # 0 /\ \E i \in DoubleDots(s) : i + 1 < L!Last(s, L!COLON)

AlgoParse(line, sec) ==
    LET s  == L!Strip(line)
        c1 == L!First(s, L!COLON)
    IN IF CurvesDotted(s, sec)
       THEN LET j    == Max(PairsBefore(s, L!Last(s, L!COLON)))
                rest == L!Sub(s, j + 2, Len(s))
                ue   == L!UnitEnd(rest)
                m    == LastColonPattern(rest, ue)
            IN [name  |-> L!Strip(L!Sub(s, 1, j)),
                unit  |-> L!FixUnit(L!Sub(rest, 1, m[1] - 1)),
                value |-> L!Strip(L!Sub(rest, m[1], m[2] - 1)),
                descr |-> L!Strip(L!Sub(rest, m[2] + 1, Len(rest)))]
       ELSE IF c1 # 0 /\ L!First(L!Sub(s, 1, c1 - 1), L!DOT) = 0
       THEN [name |-> L!Strip(L!Sub(s, 1, c1 - 1)), unit |-> <<>>, value |-> L!Strip(L!Sub(s, c1 + 1, Len(s))), descr |-> <<>>]
       ELSE LET d1   == L!First(s, L!DOT)
                rest == L!Sub(s, d1 + 1, Len(s))
                ue   == L!UnitEnd(rest)
                t    == IF sec = "Parameter" THEN TimePattern(rest, ue) ELSE <<0, 0>>
                m    == IF t[2] # 0 THEN t ELSE LastColonPattern(rest, ue)
                uend == IF m[2] = 0 THEN ue ELSE m[1]
                sep  == m[2]
            IN [name  |-> L!Strip(L!Sub(s, 1, d1 - 1)),
                unit  |-> L!FixUnit(L!Sub(rest, 1, uend - 1)),
                value |-> L!Strip(IF sep = 0 THEN L!Sub(rest, uend, Len(rest)) ELSE L!Sub(rest, uend, sep - 1)),
                descr |-> IF sep = 0 THEN <<>> ELSE L!Strip(L!Sub(rest, sep + 1, Len(rest)))]
=============================================================================
