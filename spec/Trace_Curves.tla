---------------------------- MODULE Trace_Curves ----------------------------
(* Validates recorded behaviours of real LASFile curve editing against the   *)
(* list model of Curves.tla (property C14).                                  *)
EXTENDS TraceBase, FiniteSets, SequencesExt
VARIABLES objs
C == INSTANCE Curves

Logged == Ev.post
TInit == tid \in 1..NT /\ l = 1 /\ objs = <<>>

Views(L, v) ==
    /\ Chk("C14.Views.keys",   C!V_Keys(L, v))
    /\ Chk("C14.Views.values", C!V_Values(L, v))
    /\ Chk("C14.Views.items",  C!V_Items(L, v))
    /\ Chk("C14.Views.index",  C!V_Index(L, v))
    /\ Chk("C14.Views.data",   C!V_Data(L, v))
    /\ Chk("C14.Views.byint",  C!V_ByInt(L, v))
    /\ Chk("C14.Views.byname", C!V_ByName(L, v))

TStart == /\ Ev.op = "init" /\ objs' = Logged
          /\ \A t \in DOMAIN Logged : Views(Logged[t], Ev.views[t])

TOp == /\ Ev.op # "init" /\ objs' = Logged
       /\ Chk("C14.List",  C!C_List(objs[Ev.t], Ev, Logged[Ev.t]))
       /\ Chk("C14.Exc",   C!C_Exc(objs[Ev.t], Ev))
       /\ Chk("C14.Frame", C!C_Frame(objs, Ev, Logged))
       /\ Chk("C14.SetDataNames", C!C_SetDataNames(Ev, Logged[Ev.t]))
       /\ \A t \in DOMAIN Logged : Views(Logged[t], Ev.views[t])

TNext == HasNext /\ Advance /\ (TStart \/ TOp)
TSpec == TInit /\ [][TNext]_<<tid, l, objs>>
=============================================================================
