------------------------------- MODULE NumLit -------------------------------
(***************************************************************************)
(* Property C08: which header values become numbers.  A text is a sequence *)
(* of character codes (TLA+ strings are atomic).  Two definitions of "plain*)
(* decimal literal" are given -- a DFA and a declarative grammar -- and TLC *)
(* checks that they agree on every string up to a bound (NumLitCheck.cfg). *)
(*   literal  ::= sign? ( digits ( mark digits? )? | mark digits ) exp?    *)
(*   exp      ::= [eE] sign? digits        mark ::= '.' | ','              *)
(* 64-bit range and finiteness of the denoted value are facts about numbers*)
(* TLC cannot compute (32-bit integers, no floats); the projection supplies*)
(* them as the booleans fits64 / finite.                                   *)
(***************************************************************************)
EXTENDS Integers, Sequences, FiniteSets

Digit(c) == c \in 48..57
Sign(c)  == c \in {43, 45}
Mark(c)  == c \in {46, 44}
Exp(c)   == c \in {101, 69}

\* ---- DFA ------------------------------------------------------------------
Delta(q, c) ==
    CASE q = 0 -> IF Sign(c) THEN 1 ELSE IF Digit(c) THEN 2 ELSE IF Mark(c) THEN 5 ELSE 9
      [] q = 1 -> IF Digit(c) THEN 2 ELSE IF Mark(c) THEN 5 ELSE 9
      [] q = 2 -> IF Digit(c) THEN 2 ELSE IF Mark(c) THEN 3 ELSE IF Exp(c) THEN 6 ELSE 9
      [] q = 3 -> IF Digit(c) THEN 4 ELSE IF Exp(c) THEN 6 ELSE 9
      [] q = 4 -> IF Digit(c) THEN 4 ELSE IF Exp(c) THEN 6 ELSE 9
      [] q = 5 -> IF Digit(c) THEN 4 ELSE 9
      [] q = 6 -> IF Sign(c) THEN 7 ELSE IF Digit(c) THEN 8 ELSE 9
      [] q = 7 -> IF Digit(c) THEN 8 ELSE 9
      [] q = 8 -> IF Digit(c) THEN 8 ELSE 9
      [] OTHER -> 9
RECURSIVE Run(_, _)
Run(q, s) == IF s = <<>> THEN q ELSE Run(Delta(q, Head(s)), Tail(s))
IsLiteralDFA(s) == Run(0, s) \in {2, 3, 4, 8}

\* ---- declarative grammar -----------------------------------------------------
AllDigits(s) == \A i \in DOMAIN s : Digit(s[i])
Digits1(s)   == Len(s) >= 1 /\ AllDigits(s)
Mantissa(s)  == \/ Digits1(s)
                \/ \E i \in 1..Len(s) : /\ Mark(s[i])
                                        /\ AllDigits(SubSeq(s, 1, i - 1)) /\ AllDigits(SubSeq(s, i + 1, Len(s)))
                                        /\ Len(s) >= 2
ExpPart(s)   == /\ Len(s) >= 2 /\ Exp(s[1])
                /\ LET r == IF Sign(s[2]) THEN SubSeq(s, 3, Len(s)) ELSE SubSeq(s, 2, Len(s)) IN Digits1(r)
Unsigned(s)  == \/ Mantissa(s)
                \/ \E i \in 2..Len(s) : Mantissa(SubSeq(s, 1, i - 1)) /\ ExpPart(SubSeq(s, i, Len(s)))
IsLiteralDecl(s) == IF s # <<>> /\ Sign(s[1]) THEN Unsigned(Tail(s)) ELSE Unsigned(s)

\* ---- classification ------------------------------------------------------------
HasMark(s) == \E i \in DOMAIN s : Mark(s[i])
HasExp(s)  == \E i \in DOMAIN s : Exp(s[i])
\* spellings on which the statement can be read either way (a mark at either end of the digits: 5. .5 5, ,5): not judged
Ambiguous(s) == \E i \in DOMAIN s : Mark(s[i]) /\ (i = 1 \/ ~Digit(s[i - 1]) \/ i = Len(s) \/ ~Digit(s[i + 1]))
Exempt(sec, mnUpper) == sec = "C" \/ (mnUpper \in {"API", "UWI"} /\ sec # "P")
Class(s, sec, mnUpper, fits64, finite) ==
    IF Exempt(sec, mnUpper) \/ ~IsLiteralDFA(s) THEN "str"
    ELSE IF ~HasMark(s) /\ ~HasExp(s) /\ fits64 THEN "int"
    ELSE IF finite THEN "float" ELSE "str"
=============================================================================
