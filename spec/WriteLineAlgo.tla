----------------------------- MODULE WriteLineAlgo -----------------------------
(***************************************************************************)
(* Algorithm layer of the header writer (lasio/writer.py: get_section_widths*)
(* and get_formatter_function) on character sequences:                      *)
(*   left_width   = longest original mnemonic of the section                *)
(*   middle_width = max over items of len(unit) + 1 + len(field next to it) *)
(*   line = mnemonic.ljust(left_width) delimiter unit padding field " : " last *)
(*   delimiter = " ." when the unit starts with a period, else "."          *)
(*   padding   = middle_width - len(unit) - len(field), but at least 2 when  *)
(*               the unit is purely numeric and the field is not empty      *)
(* WriteLineCheck proves  HeaderLine!Parse(Line(item)) = item  for every     *)
(* section of up to two pooled items, version and section kind; the trace    *)
(* spec compares Line(item) with the text real lasio wrote (drift).          *)
(***************************************************************************)
EXTENDS Integers, Sequences, FiniteSets, FiniteSetsExt
L == INSTANCE HeaderLine

Blanks(n) == [i \in 1..n |-> 32]
Max2(a, b) == IF a > b THEN a ELSE b
Ljust(s, w) == s \o Blanks(Max2(w - Len(s), 0))
AllDigits(u) == u # <<>> /\ \A i \in DOMAIN u : L!IsDigit(u[i])
Delim(u) == IF u # <<>> /\ u[1] = L!DOT THEN <<32, L!DOT>> ELSE <<L!DOT>>
\* item = [o, u, v, d] (already strings as written); order "value:descr" or "descr:value"
Rhs(it, order)  == IF order = "value:descr" THEN it.v ELSE it.d
Last(it, order) == IF order = "value:descr" THEN it.d ELSE it.v
LeftWidth(items) == IF items = <<>> THEN 10 ELSE Max({Len(items[i].o) : i \in DOMAIN items})
MiddleWidth(items, orders) == IF items = <<>> THEN 40
                              ELSE Max({Len(items[i].u) + 1 + Len(Rhs(items[i], orders[i])) : i \in DOMAIN items})
Pad(u, rhs, mw) == Max2(mw - Len(u) - Len(rhs), IF AllDigits(u) /\ rhs # <<>> THEN 2 ELSE 0)
Line(it, order, lw, mw) ==
    Ljust(it.o, lw) \o Delim(it.u) \o it.u \o Blanks(Pad(it.u, Rhs(it, order), mw)) \o Rhs(it, order)
    \o <<32, L!COLON, 32>> \o Last(it, order)
Lines(items, orders) == [i \in DOMAIN items |-> Line(items[i], orders[i], LeftWidth(items), MiddleWidth(items, orders))]
=============================================================================
