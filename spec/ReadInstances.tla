---------------------------- MODULE ReadInstances ----------------------------
(***************************************************************************)
(* The instance spaces of the reading properties (C02 C05 C06 C07 C19) as  *)
(* TLC state spaces: one state per abstract LAS text.  TLC                 *)
(*   - checks the domain predicate LegalText and model-level properties of *)
(*     the intent Read function on every instance (Partition: no line is   *)
(*     dropped or duplicated; OnlyVandWsteer; Rectangular; ...), and       *)
(*   - prints every instance as JSON; the harness concretises each one     *)
(*     (spellings, padding, title styles, newlines), reads it with real    *)
(*     lasio and sends the observation through Trace_Read.                 *)
(***************************************************************************)
EXTENDS Integers, Sequences, FiniteSets, TLC, Json, SequencesExt, FiniteSetsExt
CONSTANTS Family, MaxR, MaxC, MaxD, Big, Emit
VARIABLES inst, stage
R == INSTANCE LasRead
A == INSTANCE LasReadAlgo

\* ---- building blocks -------------------------------------------------------
T(sec)     == [k |-> "title", sec |-> sec]
It(m, v)   == [k |-> "item", m |-> m, v |-> v]
Cell(r, c, cls) == [id |-> r * 100 + c, cls |-> cls]      \* (row, column) coordinates carried in the value
CurveName(j) == <<"DEPT", "GR", "RHOB", "NPHI", "DT", "CALI">>[j]

VBlockV(vers, wrap, dlm) == <<T("V"), It("VERS", vers), It("WRAP", wrap)>> \o (IF dlm = "SPACE" THEN <<>> ELSE <<It("DLM", dlm)>>)
VBlock(wrap, dlm) == <<T("V"), It("VERS", "2.0"), It("WRAP", wrap)>> \o (IF dlm = "SPACE" THEN <<>> ELSE <<It("DLM", dlm)>>)
WBlock(null)  == <<T("W"), It("STRT", "s1"), It("NULL", null), It("WELL", "w1"), It("LOC", "l"), It("FLD", "f")>>
CBlock(d)     == <<T("C")>> \o [j \in 1..d |-> It(CurveName(j), "c")]
PBlock(n, steer) == <<T("P")>> \o [j \in 1..n |-> It(<<"P1", "P2">>[j], "p")] \o steer
Free(j)       == [k |-> "free", id |-> j]
OBlock(n)     == <<T("O")>> \o CASE n = 0 -> <<>> [] n = 1 -> <<Free(1)>>
                                  [] n = 2 -> <<Free(1), [k |-> "blank"], Free(2)>>        \* a blank line is part of the text
                                  [] n = 3 -> <<Free(1), [k |-> "comment"], [k |-> "blank"]>>  \* ... also as its last line
XBlock(x, steer) == <<T(x), It("XA", "x")>> \o steer
Deco(ds)      == [j \in DOMAIN ds |-> [k |-> ds[j]]]
\* r rows x c cells, one physical line per row, decorations in the r+1 gaps, classes by cls(r, c)
ABlock(r, c, deco, cls(_, _)) ==
    <<T("A")>> \o Deco(deco[1])
    \o FlattenSeq([i \in 1..r |-> <<[k |-> "data", cells |-> [j \in 1..c |-> Cell(i, j, cls(i, j))]]>> \o Deco(deco[i + 1])])
\* wrapped layout: the r*c tokens in lines of `per` tokens (never across a depth step)
AWrapped(r, c, per) ==
    <<T("A")>> \o FlattenSeq([i \in 1..r |->
        [q \in 1..((c + per - 1) \div per) |->
            [k |-> "data", cells |-> [j \in 1..(IF q * per <= c THEN per ELSE c - (q - 1) * per) |-> Cell(i, (q - 1) * per + j, "FIN")]]]])
Fin(i, j) == "FIN"
NoDeco(r) == [i \in 1..(r + 1) |-> <<>>]
Concat(blocks) == FlattenSeq(blocks)
Perms(S) == {p \in [1..Cardinality(S) -> S] : \A i, j \in DOMAIN p : i # j => p[i] # p[j]}

\* ---- the families ----------------------------------------------------------
\* Each family is generated in two stages (coarse parameter, then fine parameters) so that TLC's workers share the
\* enumeration; TLC computes the successors of one state in one thread, and initial states in a single thread.
Subsets5 == IF Big THEN SUBSET {"P", "O", "X1", "X2"} ELSE SUBSET {"P", "O", "X1"}
Steers == {<<>>, <<It("WRAP", "YES")>>, <<It("NULL", "null2")>>, <<It("DLM", "COMMA")>>, <<It("VERS", "1.2")>>}
Block(s, psz, osz, st, r, c, d) ==
    CASE s = "W" -> WBlock("null1") [] s = "C" -> CBlock(d) [] s = "P" -> PBlock(psz, st)
      [] s = "O" -> OBlock(osz) [] s = "X1" -> XBlock("X1", st) [] s = "X2" -> XBlock("X2", <<>>)
      [] s = "A" -> ABlock(r, c, NoDeco(r), Fin)
Opts0 == [null_policy |-> "strict", ihe |-> FALSE]
DecoSeqs == {<<>>, <<"blank">>, <<"comment">>, <<"blank", "comment">>, <<"comment", "blank">>, <<"blank", "blank">>}
Followers == {<<>>, <<"P">>, <<"O">>, <<"X1">>, <<"P", "O">>}
Classes == {"FIN", "NULLEQ", "NEAR"}
JunkIds == 1..3
C19Base == VBlock("NO", "SPACE") \o WBlock("null1") \o CBlock(2) \o PBlock(2, <<>>) \o XBlock("X1", <<>>) \o ABlock(2, 2, NoDeco(2), Fin)
JunkSites == {i \in 1..Len(C19Base) : R!SectionOf(C19Base, i) # 0
                                        /\ C19Base[R!SectionOf(C19Base, i)].sec \in {"V", "W", "P", "X1"}}
InsertJ(text, i, jid) == SubSeq(text, 1, i) \o <<[k |-> "junk", id |-> jid]>> \o SubSeq(text, i + 1, Len(text))

Coarse ==
    CASE Family = "C05" -> UNION {Perms(S \cup {"W", "C", "A"}) : S \in Subsets5}     \* every order of every subset, ~A anywhere
      [] Family = "C07" -> {<<"dcr", d>> : d \in 0..MaxD} \cup {<<"wrapped", c>> : c \in 1..MaxC}
                           \cup {<<"tall", r>> : r \in {21, 22, 23, 45, 101}}      \* beyond the 21-line sniffing window
                           \cup {<<"wide", c>> : c \in {11, 12, 13, 24}}           \* ten and more surplus (unnamed) columns
                           \cup {<<"dlm", dl>> : dl \in {"COMMA", "TAB"}}              \* a declared delimiter, c <, =, > d
      [] Family = "C02" -> {<<r, c, f, early>> : r \in 1..MaxR, c \in 1..MaxC, f \in Followers, early \in BOOLEAN}
      [] Family = "C06" -> {<<r, c, tc, pol, hasnull, w>> : r \in 1..MaxR, c \in 2..MaxC, tc \in {0, 2}, pol \in {"strict", "none"},
                                                           hasnull \in BOOLEAN, w \in {"NO", "YES"}}
      [] Family = "C19" -> {<<i>> : i \in JunkSites}

Fine(a) ==
    CASE Family = "C05" ->
           {[text |-> VBlockV(vers, "NO", "SPACE") \o Concat([i \in DOMAIN a |-> Block(a[i], psz, osz, st, ar, 2, 2)]), opts |-> Opts0,
             tag |-> <<"perm", a, psz, osz, vers, ar>>] : ar \in {2, 0}, psz \in (IF Big THEN 0..2 ELSE {0, 2}), osz \in (IF Big THEN 0..3 ELSE {2, 3}),
                                                     st \in Steers, vers \in {"2.0", "1.2"}}
      [] Family = "C07" ->
           IF a[1] = "tall"
           THEN {[text |-> VBlock("NO", "SPACE") \o WBlock("null1") \o CBlock(d)
                           \o ABlock(a[2], c, [NoDeco(a[2]) EXCEPT ![gap] = dd], Fin), opts |-> Opts0,
                  tag |-> <<"tall", a[2], d, c, gap, dd>>] : c \in 1..3, d \in 0..4, gap \in {1, 21, 22, a[2] + 1},
                                                           dd \in {<<>>, <<"comment">>, <<"blank", "blank">>}}
                \* ... and 20 / 21 / 22 comment or blank lines before the first data row of a short block (any c, d)
                \cup {[text |-> VBlock("NO", "SPACE") \o WBlock("null1") \o CBlock(d)
                                \o ABlock(2, c, [NoDeco(2) EXCEPT ![1] = [q \in 1..k |-> kind]], Fin), opts |-> Opts0,
                       tag |-> <<"tallhead", a[2], d, c, k, kind>>] : c \in 1..3, d \in 0..4, k \in {20, 21, 22},
                                                                     kind \in (IF a[2] = 21 THEN {"comment", "blank"} ELSE {})}
           ELSE IF a[1] = "dlm"
           THEN {[text |-> VBlock("NO", a[2]) \o WBlock("null1") \o CBlock(d) \o ABlock(r, c, NoDeco(r), Fin), opts |-> Opts0,
                  tag |-> <<"dlm", a[2], d, c, r>>] : d \in 0..3, c \in 1..4, r \in 1..3}
           ELSE IF a[1] = "wide"
           THEN {[text |-> VBlock("NO", "SPACE") \o WBlock("null1") \o CBlock(d) \o ABlock(r, a[2], NoDeco(r), Fin), opts |-> Opts0,
                  tag |-> <<"wide", a[2], d, r>>] : d \in 0..2, r \in 1..2}
           ELSE IF a[1] = "dcr"
           THEN {[text |-> VBlock("NO", "SPACE") \o WBlock("null1") \o CBlock(a[2])
                           \o ABlock(r, c, deco, LAMBDA i, j : IF j = tcol THEN "TEXT" ELSE "FIN"), opts |-> Opts0,
                  tag |-> <<"dcr", a[2], c, r, deco, tcol>>] : c \in 1..MaxC, r \in 1..MaxR, tcol \in {0, 0, 1, 2},
                      deco \in {NoDeco(MaxR), [NoDeco(MaxR) EXCEPT ![2] = <<"comment">>], [NoDeco(MaxR) EXCEPT ![1] = <<"blank", "comment">>]}}
           \* wrapped only with c = d (otherwise the column count is not determined by the file)
           ELSE {[text |-> VBlock("YES", "SPACE") \o WBlock("null1") \o CBlock(a[2]) \o AWrapped(r, a[2], per), opts |-> Opts0,
                  tag |-> <<"wrapped", a[2], r, per>>] : r \in 1..MaxR, per \in 1..a[2]}
      [] Family = "C02" ->
           \* decorations (blank / comment lines) at every gap of the data block, ~A last or followed by other sections
           {[text |-> VBlock("NO", "SPACE") \o WBlock("null1") \o CBlock(a[2])
                      \o (IF a[4] \/ \E i \in DOMAIN a[3] : a[3][i] = "P" THEN <<>> ELSE PBlock(1, <<>>))
                      \o ABlock(a[1], a[2], deco, Fin)
                      \o Concat([i \in DOMAIN a[3] |-> Block(a[3][i], 1, 1, <<>>, 1, 1, 1)]),
             opts |-> Opts0, tag |-> <<"deco", a[1], a[2], deco, a[3]>>] : deco \in [1..(a[1] + 1) -> DecoSeqs]}
           \* data made of zeros (every cell, the first row, the first column): "nothing there" and "all zero" are different things
           \* a declared TAB delimiter (the concretiser then uses single, doubled, leading and trailing tabs)
           \cup {[text |-> VBlock("NO", "TAB") \o WBlock("null1") \o CBlock(a[2]) \o ABlock(a[1], a[2], NoDeco(a[1]), Fin)
                           \o Concat([i \in DOMAIN a[3] |-> Block(a[3][i], 1, 1, <<>>, 1, 1, 1)]),
                  opts |-> Opts0, tag |-> <<"zero", a[1], a[2], "tabdlm", a[3]>>]}
           \cup {[text |-> VBlock("NO", "SPACE") \o WBlock("null1") \o CBlock(a[2])
                           \o ABlock(a[1], a[2], NoDeco(a[1]), LAMBDA i, j : IF z = "all" \/ (z = "row1" /\ i = 1) \/ (z = "col1" /\ j = 1)
                                                                            THEN "ZERO"
                                                                            \* ... and samples equal to NULL, in the index too
                                                                            ELSE IF (z = "nullidx" /\ i = 1 /\ j = 1) \/ (z = "nullrow" /\ i = 1)
                                                                            THEN "NULLEQ" ELSE "FIN")
                           \o Concat([i \in DOMAIN a[3] |-> Block(a[3][i], 1, 1, <<>>, 1, 1, 1)]),
                  opts |-> Opts0, tag |-> <<"zero", a[1], a[2], z, a[3]>>] : z \in {"all", "row1", "col1", "nullidx", "nullrow"}}
      [] Family = "C06" ->
           \* class masks on r x c blocks, NULL present or absent, policy strict / none, wrapped or not
           {[text |-> VBlock(a[6], "SPACE") \o (IF a[5] THEN WBlock("null1") ELSE <<T("W"), It("WELL", "w1")>>)
                      \* (unwrapped: also one curve declared fewer than there are columns -- the NULL rule holds for surplus columns too)
                      \o CBlock(IF a[6] = "NO" /\ Len(pb) = 0 /\ a[3] = 0 THEN a[2] - under ELSE a[2])
                      \o pb \o ABlock(a[1], a[2], NoDeco(a[1]), LAMBDA i, j : IF j = a[3] THEN "TEXT" ELSE m[i][j]),
             opts |-> [null_policy |-> a[4], ihe |-> FALSE], tag |-> <<"mask", a, Len(pb), under>>] :
                m \in [1..a[1] -> [1..a[2] -> Classes]], under \in {0, 1},
                pb \in {<<>>, PBlock(1, <<It("NULL", "null2")>>)}}        \* a parameter that happens to be called NULL steers nothing
      [] Family = "C19" ->
           {[text |-> InsertJ(C19Base, a[1], j), opts |-> [null_policy |-> "strict", ihe |-> f], tag |-> <<"junk1", a[1], j>>] :
                j \in JunkIds, f \in BOOLEAN}
           \cup {[text |-> LET hi == IF i2 > a[1] THEN i2 ELSE a[1]  lo == IF i2 > a[1] THEN a[1] ELSE i2
                            IN InsertJ(InsertJ(C19Base, hi, 2), lo, 1), opts |-> [null_policy |-> "strict", ihe |-> TRUE],
                  tag |-> <<"junk2", a[1], i2>>] : i2 \in JunkSites}

Seed == [text |-> <<>>, opts |-> Opts0, tag |-> <<"seed">>]
Init == stage = 0 /\ inst = Seed
Next == \/ stage = 0 /\ stage' = 1 /\ \E a \in Coarse : inst' = [Seed EXCEPT !.tag = a]
        \/ stage = 1 /\ stage' = 2 /\ \E x \in Fine(inst.tag) : inst' = x
Spec == Init /\ [][Next]_<<inst, stage>>

\* ---- model-level checks on every instance ------------------------------------
Legal == stage = 2 => R!LegalText(inst.text)
\* no line is dropped or duplicated: every item / free / data line appears exactly once in the result
Partition == stage = 2 =>
    LET tx == inst.text  res == R!Read(tx, inst.opts)
        nItems == Cardinality({i \in DOMAIN tx : tx[i].k = "item"})
        nFree  == Cardinality({i \in DOMAIN tx : R!SectionOf(tx, i) # 0 /\ tx[R!SectionOf(tx, i)].sec = "O" /\ ~R!IsTitle(tx[i])})
        nCells == FoldSet(LAMBDA i, acc : acc + (IF tx[i].k = "data" THEN Len(tx[i].cells) ELSE 0), 0, DOMAIN tx)
        sumItems == FoldSet(LAMBDA n, acc : acc + Len(res.header[n]), 0, DOMAIN res.header)
        c == R!NCols(R!Rows(tx))
    IN /\ sumItems = nItems
       /\ Len(res.other) = nFree
       /\ nCells = c * Len(R!Rows(tx))
\* an item outside ~V / ~W never changes how the data is interpreted
Neutral(ln) == IF ln.k = "item" /\ ln.m \in {"VERS", "WRAP", "DLM", "NULL"} THEN [ln EXCEPT !.m = "ZZ"] ELSE ln
OnlyVandWsteer == stage = 2 =>
    LET tx == inst.text
        tx2 == [i \in DOMAIN tx |-> IF R!SectionOf(tx, i) # 0 /\ tx[R!SectionOf(tx, i)].sec \in {"V", "W"} THEN tx[i] ELSE Neutral(tx[i])]
    IN R!Read(tx, inst.opts).curves = R!Read(tx2, inst.opts).curves
\* the refinement: the algorithm layer computes exactly what the intent layer demands, on every instance without junk
AlgoRefinesIntent == (stage = 2 /\ R!JunkAt(inst.text) = {}) => A!AlgoRead(inst.text, inst.opts) = R!Read(inst.text, inst.opts)
EmitInst == (Emit /\ stage = 2) => PrintT(ToJson(inst @@ [path |-> A!AlgoPath(inst.text, inst.opts, "numpy")]))
=============================================================================
