----------------------------- MODULE CurvesAlgo -----------------------------
(***************************************************************************)
(* Algorithm layer for LASFile curve editing (lasio/las.py, las_items.py): *)
(* two LASFile objects edited alternately; session names maintained by     *)
(* assign_duplicate_suffixes as in SectionAlgo.  TLC checks every step     *)
(* against the list model of Curves.tla and prints every transition for    *)
(* replay on real LASFile objects.                                         *)
(***************************************************************************)
EXTENDS Integers, Sequences, FiniteSets, TLC, Json, SequencesExt, FiniteSetsExt, PyList
CONSTANTS Names, MaxLen1, MaxLen2, Emit
VARIABLES objs, last
vars == <<objs, last>>
C == INSTANCE Curves

Useful(o) == C!Useful(o)
Rank(g, j) == Cardinality({x \in g : x <= j})
Renumber(it, u) ==
    LET locs == {i \in DOMAIN it : Useful(it[i].o) = u}
    IN IF Cardinality(locs) > 1
       THEN [i \in DOMAIN it |-> IF i \in locs THEN [it[i] EXCEPT !.s = Useful(it[i].o) \o ":" \o ToString(Rank(locs, i))]
                                 ELSE it[i]]
       ELSE it
RECURSIVE RenumberAll(_, _)
RenumberAll(it, us) == IF us = {} THEN it ELSE LET u == CHOOSE u \in us : TRUE IN RenumberAll(Renumber(it, u), us \ {u})

AllIds == UNION {{objs[t][i].id : i \in 1..Len(objs[t])} : t \in DOMAIN objs}
Fresh(k) == CHOOSE s \in [1..k -> 1..(MaxLen1 + MaxLen2 + k)] :
                /\ \A i \in 1..k : s[i] \notin AllIds
                /\ \A i \in 1..(k - 1) : s[i] < s[i + 1]
                /\ \A x \in 1..(MaxLen1 + MaxLen2 + k) : (x \notin AllIds /\ x < s[k]) => x \in Range(s)
nid == Fresh(1)[1]
NewC(n, a, id) == [id |-> id, o |-> n, s |-> Useful(n), m |-> 0, a |-> a]
UpdC(c, a, m)  == [c EXCEPT !.a = IF a = 0 THEN @ ELSE a, !.m = C!NewMeta(@, m)]

SetData(L, e) ==
    LET n  == Len(L)
        w  == Len(e.cols)
        n2 == IF e.truncate THEN n ELSE IF w > n THEN w ELSE n
        ext == [i \in 1..n2 |-> IF i <= n THEN L[i] ELSE NewC("", 0, e.nids[i - n])]
        nm(i) == IF Len(e.names) = 0 THEN ext[i].o ELSE IF i <= Len(e.names) THEN e.names[i] ELSE ""
        ren == [i \in 1..n2 |-> [ext[i] EXCEPT !.o = nm(i), !.s = Useful(nm(i)), !.a = e.cols[i]]]
    IN RenumberAll(ren, {Useful(ren[i].o) : i \in 1..n2})

Effect(L, e) ==
    IF C!ExpExc(L, e) # "" THEN L ELSE
    CASE e.op = "append_curve" -> Renumber(Append(L, NewC(e.n, e.a, e.nid)), Useful(e.n))
      [] e.op = "insert_curve" -> Renumber(PyInsert(L, e.i, NewC(e.n, e.a, e.nid)), Useful(e.n))
      [] e.op = "delete_ix"    -> RemoveAt(L, PyPos(Len(L), e.i))
      [] e.op = "delete_mn"    -> RemoveAt(L, C!FirstS(L, e.k))
      [] e.op = "update_mn"    -> [L EXCEPT ![C!FirstS(L, e.k)] = UpdC(@, e.a, e.m)]
      [] e.op = "update_ix"    -> [L EXCEPT ![PyPos(Len(L), e.i)] = UpdC(@, e.a, e.m)]
      [] e.op = "replace_item" -> LET p == PyPos(Len(L), e.i)
                                  IN Renumber(InsertAt(RemoveAt(L, p), p, NewC(e.n, e.a, e.nid)), Useful(e.n))
      [] e.op = "setitem_arr"  -> IF C!FirstS(L, e.k) = 0 THEN Renumber(Append(L, NewC(e.k, e.a, e.nid)), Useful(e.k))
                                  ELSE [L EXCEPT ![C!FirstS(L, e.k)] = UpdC(@, e.a, 0)]
      [] e.op = "setitem_item" -> LET p == C!FirstS(L, e.k)
                                  IN IF p = 0 THEN Renumber(Append(L, NewC(e.n, e.a, e.nid)), Useful(e.n))
                                     ELSE Renumber(InsertAt(RemoveAt(L, p), p, NewC(e.n, e.a, e.nid)), Useful(e.n))
      [] e.op = "set_data"     -> SetData(L, e)

Norm(L) == SubSeq(L, 1, Len(L))      \* forces TLC to build an explicit tuple (lazy function values cannot be serialised)
KeysOf(L) == {L[i].s : i \in 1..Len(L)} \cup {"Z"}
Ops(t, L, mx) ==
    LET n == Len(L) IN
    IF t = 2 THEN       \* the second LASFile only needs to exist and change now and then (frame condition)
      {[op |-> "append_curve", t |-> t, n |-> "A", a |-> 1, nid |-> nid],
       [op |-> "delete_ix", t |-> t, i |-> 0], [op |-> "update_ix", t |-> t, i |-> 0, a |-> 3, m |-> 1]}
    ELSE
    {[op |-> "append_curve", t |-> t, n |-> x, a |-> 1, nid |-> nid] : x \in Names}
    \cup {[op |-> "insert_curve", t |-> t, i |-> i, n |-> x, a |-> 1, nid |-> nid] : i \in -(n + 1)..(n + 1), x \in Names}
    \cup {[op |-> "delete_ix", t |-> t, i |-> i] : i \in -(n + 1)..n}
    \cup {[op |-> "delete_mn", t |-> t, k |-> k] : k \in KeysOf(L)}
    \cup {[op |-> "update_mn", t |-> t, k |-> k, a |-> am[1], m |-> am[2]] : k \in KeysOf(L), am \in {<<3, 0>>, <<0, 1>>, <<0, 8>>}}
    \cup {[op |-> "update_ix", t |-> t, i |-> i, a |-> 3, m |-> 1] : i \in -(n + 1)..n}
    \cup {[op |-> "replace_item", t |-> t, i |-> i, n |-> x, a |-> 2, nid |-> nid] : i \in -(n + 1)..n, x \in Names}
    \cup {[op |-> "setitem_arr", t |-> t, k |-> k, a |-> 3, nid |-> nid] : k \in KeysOf(L) \cup Names}
    \cup {[op |-> "setitem_item", t |-> t, k |-> k, n |-> x, a |-> 2, nid |-> nid] : k \in KeysOf(L), x \in Names}
    \cup {[op |-> "set_data", t |-> t, cols |-> [i \in 1..w |-> 10 + i], names |-> nm, truncate |-> tr,
           nids |-> IF w > n THEN Fresh(w - n) ELSE <<>>] :
            w \in {x \in n..(n + 1) : x >= 1 /\ x <= mx + 1}, tr \in BOOLEAN,
            nm \in {<<>>, <<"A">>, <<"A", "A">>, <<"B", "A", "B">>}}

Init == objs = <<<<>>, <<>>>> /\ last = [op |-> "init"]
Next == \E t \in {1, 2} : \E e \in Ops(t, objs[t], IF t = 1 THEN MaxLen1 ELSE MaxLen2) :
          /\ objs' = [objs EXCEPT ![t] = Norm(Effect(objs[t], e))]
          /\ Len(objs'[t]) <= (IF t = 1 THEN MaxLen1 ELSE MaxLen2)
          /\ last' = e @@ [exc |-> C!ExpExc(objs[t], e)]
Spec == Init /\ [][Next]_vars

Refines == [][/\ C!C_List(objs[last'.t], last', objs'[last'.t])
              /\ C!C_SetDataNames(last', objs'[last'.t])
              /\ C!C_Frame(objs, last', objs')]_vars
EmitEdge == Emit => PrintT(ToJson([pre |-> objs, e |-> last', post |-> objs']))
Strip(L) == [i \in DOMAIN L |-> <<L[i].o, L[i].s, L[i].m, L[i].a>>]
View == <<Strip(objs[1]), Strip(objs[2])>>
=============================================================================
