----------------------------- MODULE HeaderLine -----------------------------
(***************************************************************************)
(* Property C04: the grammar of one header line, over sequences of         *)
(* character codes.                                                        *)
(*    MNEM .UNIT  VALUE : DESCRIPTION                                      *)
(*  - a line whose first colon is not preceded by a period is NAME : VALUE *)
(*  - the mnemonic is everything before the first period                   *)
(*  - the unit is the run of non-blanks directly after that period; if it  *)
(*    is digits followed by ONE blank, the following run belongs to it too *)
(*    ("1000 lbf")                                                         *)
(*  - outside ~Parameter the LAST colon separates value and description;   *)
(*    inside ~Parameter the FIRST colon after the unit that is not part of *)
(*    a clock time (not preceded by " HH"-like hours 00..23 / hh / HH, not *)
(*    followed by minutes 00..59 / mm / MM); if there is none, the last    *)
(*  - every field is stripped; a unit ending in '.' loses its periods      *)
(***************************************************************************)
EXTENDS Integers, Sequences, FiniteSets

DOT == 46  COLON == 58  SP == 32  TAB == 9
IsWs(c)    == c \in {SP, TAB}
IsDigit(c) == c \in 48..57

RECURSIVE LStrip(_)
LStrip(s) == IF s # <<>> /\ IsWs(Head(s)) THEN LStrip(Tail(s)) ELSE s
RECURSIVE RStrip(_)
RStrip(s) == IF s # <<>> /\ IsWs(s[Len(s)]) THEN RStrip(SubSeq(s, 1, Len(s) - 1)) ELSE s
Strip(s) == RStrip(LStrip(s))
RECURSIVE FirstFrom(_, _, _)
FirstFrom(s, c, i) == IF i > Len(s) THEN 0 ELSE IF s[i] = c THEN i ELSE FirstFrom(s, c, i + 1)
First(s, c) == FirstFrom(s, c, 1)
RECURSIVE LastFrom(_, _, _)
LastFrom(s, c, i) == IF i < 1 THEN 0 ELSE IF s[i] = c THEN i ELSE LastFrom(s, c, i - 1)
Last(s, c) == LastFrom(s, c, Len(s))
Sub(s, a, b) == IF b < a THEN <<>> ELSE SubSeq(s, a, b)        \* 1-based inclusive
RECURSIVE DigitRunEnd(_, _)
DigitRunEnd(s, i) == IF i <= Len(s) /\ IsDigit(s[i]) THEN DigitRunEnd(s, i + 1) ELSE i    \* first index >= i that is not a digit
RECURSIVE NonWsRunEnd(_, _)
NonWsRunEnd(s, i) == IF i <= Len(s) /\ ~IsWs(s[i]) THEN NonWsRunEnd(s, i + 1) ELSE i     \* first index >= i that is a blank

\* end (exclusive, 1-based) of the unit as the run after the period:  ([0-9]+ blank)? non-blanks
UnitEnd(rest) ==
    LET dEnd == DigitRunEnd(rest, 1)
    IN IF dEnd > 1 /\ dEnd <= Len(rest) /\ IsWs(rest[dEnd])
       THEN NonWsRunEnd(rest, dEnd + 1)
       ELSE NonWsRunEnd(rest, 1)

H == 72  h == 104  M == 77  m == 109
\* look-behind: the three characters before position i are " 0d".." 2d" with d in 0..3, or " hh", " HH"
HourBefore(r, i) == /\ i >= 4 /\ r[i - 3] = SP
                    /\ \/ r[i - 2] \in 48..50 /\ r[i - 1] \in 48..51
                       \/ r[i - 2] = h /\ r[i - 1] = h
                       \/ r[i - 2] = H /\ r[i - 1] = H
MinuteAfter(r, i) == /\ i + 2 <= Len(r)
                     /\ \/ r[i + 1] \in 48..53 /\ IsDigit(r[i + 2])
                        \/ r[i + 1] = m /\ r[i + 2] = m
                        \/ r[i + 1] = M /\ r[i + 2] = M
RECURSIVE ParamSepFrom(_, _)
ParamSepFrom(r, i) == IF i > Len(r) THEN 0
                      ELSE IF r[i] = COLON /\ ~HourBefore(r, i) /\ ~MinuteAfter(r, i) THEN i
                      ELSE ParamSepFrom(r, i + 1)
Sep(rest, sec, uend) == IF sec = "Parameter"
                        THEN LET p == ParamSepFrom(rest, uend) IN IF p # 0 THEN p ELSE Last(rest, COLON)
                        ELSE Last(rest, COLON)

RECURSIVE StripDots(_)
StripDots(u) == IF u # <<>> /\ Head(u) = DOT THEN StripDots(Tail(u))
                ELSE IF u # <<>> /\ u[Len(u)] = DOT THEN StripDots(SubSeq(u, 1, Len(u) - 1)) ELSE u
FixUnit(u) == LET v == Strip(u) IN IF v # <<>> /\ v[Len(v)] = DOT THEN StripDots(v) ELSE v

Parse(line, sec) ==
    LET s  == Strip(line)
        c1 == First(s, COLON)
    IN IF c1 # 0 /\ First(Sub(s, 1, c1 - 1), DOT) = 0
       THEN [name |-> Strip(Sub(s, 1, c1 - 1)), unit |-> <<>>, value |-> Strip(Sub(s, c1 + 1, Len(s))), descr |-> <<>>]
       ELSE LET d1   == First(s, DOT)
                rest == Sub(s, d1 + 1, Len(s))
                ue   == UnitEnd(rest)
                sep  == Sep(rest, sec, ue)
                ue2  == IF sep # 0 /\ sep < ue THEN sep ELSE ue
            IN [name  |-> Strip(Sub(s, 1, d1 - 1)),
                unit  |-> FixUnit(Sub(rest, 1, ue2 - 1)),
                value |-> Strip(IF sep = 0 THEN Sub(rest, ue2, Len(rest)) ELSE Sub(rest, ue2, sep - 1)),
                descr |-> IF sep = 0 THEN <<>> ELSE Strip(Sub(rest, sep + 1, Len(rest)))]

\* a line laid out from fields f = [m, u, v, d] and six paddings
Format(f, p) == p[1] \o f.m \o p[2] \o <<DOT>> \o f.u \o p[3] \o f.v \o p[4] \o <<COLON>> \o p[5] \o f.d \o p[6]
Expected(f)  == [name |-> Strip(f.m), unit |-> f.u, value |-> Strip(f.v), descr |-> Strip(f.d)]

\* recorded finding D26: in ~Parameter, a unit containing a colon and a separating colon that directly follows an
\* hour-like token (" 12:", " hh:") -- the reader's regex backtracks into the unit
KnownD26(line, sec) ==
    /\ sec = "Parameter"
    /\ LET s == Strip(line)  d1 == First(s, DOT)  rest == Sub(s, d1 + 1, Len(s))  ue == UnitEnd(rest)
           sep == Sep(rest, sec, ue)
       IN /\ d1 # 0 /\ sep # 0 /\ sep >= ue
          /\ First(Sub(rest, 1, ue - 1), COLON) # 0
          /\ HourBefore(rest, sep)
=============================================================================
