----------------------------- MODULE WriteLayout -----------------------------
(***************************************************************************)
(* Algorithm layer shared by the round-trip properties C01 C03 C11 C12:     *)
(*  (a) the value/description order tables as the writer and the reader use *)
(*      them (defaults.ORDER_DEFINITIONS, writer.get_section_order_function,*)
(*      reader.SectionParser): both sides must pick the same order for every*)
(*      spelling of a mnemonic, every version and every read case;          *)
(*  (b) the wrapped data layout: how many physical lines a depth step takes *)
(*      for a given field capacity, what the reader's column sniffing sees  *)
(*      on the first 21 lines, and which column count the reshape uses.     *)
(* TLC checks both over all small parameter values.                        *)
(***************************************************************************)
EXTENDS Integers, Sequences, FiniteSets, TLC, Json

\* ---- (a) order tables ---------------------------------------------------------
Forms == {<<"STRT", "strt", "Strt">>, <<"STOP", "stop", "Stop">>, <<"STEP", "step", "Step">>, <<"NULL", "null", "Null">>,
          <<"WELL", "well", "Well">>, <<"X", "x", "X">>}
Spellings == UNION {{f[1], f[2], f[3]} : f \in Forms}
FormOf(x) == CHOOSE f \in Forms : x \in {f[1], f[2], f[3]}
UpperOf == [x \in Spellings |-> FormOf(x)[1]]
LowerOf == [x \in Spellings |-> FormOf(x)[2]]
ValueFirst12 == {"STRT", "STOP", "STEP", "NULL"}          \* LAS 1.2 ~Well: these are  value : descr, everything else  descr : value
\* the writer looks the ORIGINAL mnemonic up; the reader the mnemonic AFTER the case mapping; both upper-case it first
WriterOrder(version, sec, orig) ==
    IF version = "1.2" /\ sec = "Well" /\ UpperOf[orig] \notin ValueFirst12 THEN "descr:value" ELSE "value:descr"
CaseMap(c, x) == CASE c = "upper" -> UpperOf[x] [] c = "lower" -> LowerOf[x] [] OTHER -> x
ReaderOrder(version, sec, orig, case) ==
    LET parsed == CaseMap(case, orig)
    IN IF version = "1.2" /\ sec = "Well" /\ UpperOf[parsed] \notin ValueFirst12 THEN "descr:value" ELSE "value:descr"
OrdersAgree == \A v \in {"1.2", "2.0"}, sec \in {"Version", "Well", "Curves", "Parameter"}, o \in DOMAIN UpperOf,
                  c \in {"preserve", "upper", "lower"} : WriterOrder(v, sec, o) = ReaderOrder(v, sec, o, c)
\* the exact-spelling lookup of the code before the repair of D12 (must disagree: Strt, Null, ...)
ExactTable == {"STRT", "STOP", "STEP", "NULL", "strt", "stop", "step", "null"}
OldWriterOrder(v, sec, orig) == IF v = "1.2" /\ sec = "Well" /\ orig \notin ExactTable THEN "descr:value" ELSE "value:descr"
OldReaderOrder(v, sec, orig, c) == IF v = "1.2" /\ sec = "Well" /\ CaseMap(c, orig) \notin ExactTable THEN "descr:value" ELSE "value:descr"
OldOrdersAgree == \A o \in DOMAIN UpperOf, c \in {"preserve", "upper", "lower"} :
                     OldWriterOrder("1.2", "Well", o) = OldReaderOrder("1.2", "Well", o, c)

\* ---- (b) wrapped layout, sniffing, reshape ---------------------------------------
CONSTANTS MaxCurves, MaxCap, RowSet, UseDeclaredWhenWrapped
VARIABLES nc, cap, rows
LinesPerRow(c, k) == (c + k - 1) \div k
\* number of tokens on the j-th physical line (1-based) of a wrapped data section
TokensOnLine(c, k, j) == LET q == ((j - 1) % LinesPerRow(c, k)) + 1 IN IF q * k <= c THEN k ELSE c - (q - 1) * k
TotalLines(c, k, r) == r * LinesPerRow(c, k)
Sampled(c, k, r) == LET n == TotalLines(c, k, r) IN 1..(IF n < 21 THEN n ELSE 21)
Sniffed(c, k, r) == LET counts == {TokensOnLine(c, k, j) : j \in Sampled(c, k, r)}
                    IN IF Cardinality(counts) = 1 THEN CHOOSE x \in counts : TRUE ELSE -1
ReshapeBy(c, k, r) == LET s == Sniffed(c, k, r)
                      IN IF s = -1 THEN c ELSE IF UseDeclaredWhenWrapped THEN c ELSE s
Init == nc \in 1..MaxCurves /\ cap \in 1..MaxCap /\ rows \in RowSet
Next == UNCHANGED <<nc, cap, rows>>
Spec == Init /\ [][Next]_<<nc, cap, rows>>
\* the data comes back with the declared number of columns and the written number of rows
ShapeRecovered == ReshapeBy(nc, cap, rows) = nc
=============================================================================
