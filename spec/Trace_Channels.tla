--------------------------- MODULE Trace_Channels ---------------------------
(* Property C10: the result of read() depends only on (content, options);    *)
(* reads are pure (no live result changes unless it is the one being edited).*)
(* Digests of the full projected result are computed by the harness.  The    *)
(* trace file carries, per (content, options), the PRISTINE digest: the      *)
(* result of reading that content with those options in a fresh interpreter  *)
(* (File.ref); the spec keeps the current digest of every live object.       *)
EXTENDS TraceBase, FiniteSets
VARIABLES first, live
TInit == tid \in 1..NT /\ l = 1 /\ first = <<>> /\ live = <<>>

Key == Ev.c \o "|" \o Ev.opt
Others(post, k) == \A j \in DOMAIN live : j # k => post[j] = live[j]

TRead == /\ Ev.op = "read"
         /\ Chk("C10.ReadIsFunction", File.ref[Key] = Ev.digest)
         /\ Chk("C10.ReadIsFunction.history", Key \in DOMAIN first => first[Key] = Ev.digest)
         /\ Chk("C10.NonAsciiPreserved", Ev.nonascii_ok)
         /\ Chk("C10.Frame.read", Len(Ev.live) = Len(live) + 1 /\ Others(Ev.live, Len(live) + 1))
         /\ first' = IF Key \in DOMAIN first THEN first ELSE [x \in DOMAIN first \cup {Key} |-> IF x = Key THEN Ev.digest ELSE first[x]]
         /\ live' = Ev.live
TMutate == /\ Ev.op = "mutate"
           /\ Chk("C10.Frame.mutate", Others(Ev.live, Ev.k))
           /\ Chk("C10.MutationVisible", Ev.live[Ev.k] # live[Ev.k])
           /\ live' = Ev.live /\ UNCHANGED first
TWrite == /\ Ev.op = "write"
          /\ Chk("C10.Frame.write", Others(Ev.live, Ev.k))
          /\ live' = Ev.live /\ UNCHANGED first
TNext == HasNext /\ Advance /\ (TRead \/ TMutate \/ TWrite)
TSpec == TInit /\ [][TNext]_<<tid, l, first, live>>
=============================================================================
