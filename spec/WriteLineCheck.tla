----------------------------- MODULE WriteLineCheck -----------------------------
(* Design-level theorem of C03: what the writer lays out, the reader parses back. *)
(* For every section of one or two items drawn from character-level pools (each   *)
(* item in turn the widest; empty, dotted, numeric units; blank mnemonic), every   *)
(* order and section kind:  HeaderLine!Parse(Line(item)) = the item's fields.      *)
EXTENDS Integers, Sequences, FiniteSets, TLC
CONSTANTS NumericPadFix, DottedUnitFix
VARIABLES items, order, sec, stage
L == INSTANCE HeaderLine
A == INSTANCE WriteLineAlgo
RA == INSTANCE HeaderLineAlgo
a == 97  one == 49  two == 50
Mn == {<<a>>, <<a, a, a>>, <<>>}
Un == {<<>>, <<a>>, <<a, 47, a, a, a>>, <<46, one, a>>, <<one, two>>, <<a, 46, a>>}
Va == {<<>>, <<a>>, <<one, two>>, <<a, 32, a, a, a, a>>, <<45, one, 46, two>>}
De == {<<>>, <<a>>, <<a, 32, a>>}
Item == [o : Mn, u : Un, v : Va, d : De]
HasDot(s) == \E i \in DOMAIN s : s[i] = 46
Conformant(it, s) ==
    (it.o = <<>> => ~HasDot(it.u) /\ ~HasDot(it.v) /\ ~HasDot(it.d))             \* blank mnemonic: no further period on the line
Init == stage = 0 /\ items = <<>> /\ order = "value:descr" /\ sec = "Well"
\* two-stage generation (first item, then nothing or a second item) so that TLC's workers share the enumeration;
\* the invariant is evaluated on the one-item sections (stage 1) and on the two-item sections (stage 2)
Next == \/ /\ stage = 0 /\ stage' = 1
           /\ \E it \in Item, ord \in {"value:descr", "descr:value"}, s \in {"Well", "Parameter", "Curves"} :
                 /\ (ord = "descr:value" => s = "Well")
                 /\ Conformant(it, s)
                 /\ items' = <<it>> /\ order' = ord /\ sec' = s
        \/ /\ stage = 1 /\ stage' = 2 /\ UNCHANGED <<order, sec>>
           /\ \E it \in Item : Conformant(it, sec) /\ items' = Append(items, it)
Spec == Init /\ [][Next]_<<items, order, sec, stage>>
\* variants of the algorithm without the two repairs (D21, D32), to show the theorem is sensitive to them
PadOld(u, rhs, mw) == mw - Len(u) - Len(rhs)
LineOf(it, lw, mw) ==
    IF NumericPadFix /\ DottedUnitFix THEN A!Line(it, order, lw, mw)
    ELSE A!Ljust(it.o, lw) \o (IF DottedUnitFix THEN A!Delim(it.u) ELSE <<46>>) \o it.u
         \o A!Blanks(IF NumericPadFix THEN A!Pad(it.u, A!Rhs(it, order), mw) ELSE PadOld(it.u, A!Rhs(it, order), mw))
         \o A!Rhs(it, order) \o <<32, 58, 32>> \o A!Last(it, order)
Expected(it) == [name |-> L!Strip(it.o), unit |-> it.u,
                 value |-> L!Strip(IF order = "value:descr" THEN it.v ELSE it.d),
                 descr |-> L!Strip(IF order = "value:descr" THEN it.d ELSE it.v)]
ReadsBack == stage >= 1 =>
    LET ords == [i \in DOMAIN items |-> order]
        lw == A!LeftWidth(items)  mw == A!MiddleWidth(items, ords)
    IN \A i \in DOMAIN items : RA!AlgoParse(LineOf(items[i], lw, mw), sec) = Expected(items[i])      \* writer algorithm ; reader algorithm
\* ... and the documented grammar reads the written line the same way (no reliance on reader quirks)
ReadsBackByGrammar == stage >= 1 =>
    LET ords == [i \in DOMAIN items |-> order]
        lw == A!LeftWidth(items)  mw == A!MiddleWidth(items, ords)
    IN \A i \in DOMAIN items : L!Parse(LineOf(items[i], lw, mw), sec) = Expected(items[i])
=============================================================================
