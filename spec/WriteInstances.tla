---------------------------- MODULE WriteInstances ----------------------------
(***************************************************************************)
(* Instance spaces of the write->read properties, enumerated by TLC in two  *)
(* stages (see ReadInstances).                                              *)
(*  C01: structural writer options x shapes x NaN-mask classes x a          *)
(*       presentation class (formats / widths / spacers chosen from a table *)
(*       in the harness)                                                    *)
(*  C03: item lists per section from a pool of representative items (each   *)
(*       item the widest of its section in turn) x version x read case      *)
(*  C12: unordered pairs of writer configurations                           *)
(***************************************************************************)
EXTENDS Integers, Sequences, FiniteSets, TLC, Json
CONSTANTS Family, MaxCurves, NPres, NItems, MaxList, Emit, TallRows
VARIABLES inst, stage

Masks == {"none", "one", "row", "col", "all", "checker"}
Coarse ==
    CASE Family = "C01" -> {<<c, r>> : c \in 1..MaxCurves, r \in {1, 2, 3, 22, 101}}
                           \* tall blocks: row counts at and around the block sizes a buffered writer or reader might use,
                           \* with 1, 3 and 7 lines per depth step when wrapped
                           \cup {<<c, r>> : c \in {2, 16, 37}, r \in TallRows}
      [] Family = "C03" -> {<<sec, v, case>> : sec \in {"Version", "Well", "Curves", "Parameter"}, v \in {"1.2", "2.0"},
                                              case \in {"preserve", "upper", "lower"}}
      [] Family = "C12" -> {<<a>> : a \in 1..NPres}
Lists == UNION {[1..n -> 1..NItems] : n \in 0..MaxList}
Fine(a) ==
    CASE Family = "C01" /\ a[2] > 101 ->
           {[ncurves |-> a[1], nrows |-> a[2], version |-> v, wrap |-> w, engine |-> e, mh |-> FALSE, mask |-> "checker", pres |-> 1] :
               v \in {"1.2", "2.0"}, w \in BOOLEAN, e \in {"numpy", "normal"}}
      [] Family = "C01" ->
           {[ncurves |-> a[1], nrows |-> a[2], version |-> v, wrap |-> w, engine |-> e, mh |-> mh, mask |-> m, pres |-> p] :
               v \in {"1.2", "2.0"}, w \in BOOLEAN, e \in {"numpy", "normal"}, mh \in BOOLEAN, m \in Masks, p \in 1..NPres}
      [] Family = "C03" -> {[sec |-> a[1], version |-> a[2], case |-> a[3], items |-> l] : l \in Lists}
      [] Family = "C12" -> {[c1 |-> a[1], c2 |-> b, input |-> i] : b \in a[1]..NPres, i \in 1..6}
Seed == [seed |-> TRUE]
Init == stage = 0 /\ inst = Seed
Next == \/ stage = 0 /\ stage' = 1 /\ \E a \in Coarse : inst' = [seed |-> FALSE, a |-> a]
        \/ stage = 1 /\ stage' = 2 /\ \E x \in Fine(inst.a) : inst' = x
Spec == Init /\ [][Next]_<<inst, stage>>
EmitInst == (Emit /\ stage = 2) => PrintT(ToJson(inst))
=============================================================================
