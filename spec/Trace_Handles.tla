--------------------------- MODULE Trace_Handles ---------------------------
(* Validates recorded open/io/fault/close events of real lasio calls (C20). *)
EXTENDS TraceBase, FiniteSets
VARIABLES h, phase
H == INSTANCE Handles

TInit == tid \in 1..NT /\ l = 1 /\ h = <<>> /\ phase = "idle"

TBegin == /\ Ev.op = "begin" /\ Chk("C20.Protocol.begin", phase = "idle")
          /\ phase' = "incall"
          /\ h' = [x \in {Ev.callerfiles[i] : i \in DOMAIN Ev.callerfiles} |-> [owner |-> "caller", open |-> TRUE]]
TOpen  == /\ Ev.op = "open" /\ phase = "incall"
          /\ h' = H!DoOpen(h, Ev.h, "lasio") /\ UNCHANGED phase
TIo    == /\ Ev.op \in {"io", "fault"} /\ phase = "incall" /\ UNCHANGED <<h, phase>>
TClose == /\ Ev.op = "close" /\ Ev.h \in DOMAIN h
          /\ h' = H!DoClose(h, Ev.h) /\ UNCHANGED phase
TEnd   == /\ Ev.op = "end" /\ phase = "incall"
          /\ phase' = "idle" /\ UNCHANGED h
          /\ Chk("C20.NoLeak", H!NoLeak(h))
          /\ Chk("C20.CallerKept", Ev.kind = "read" \/ H!CallerKept(h))
          /\ Chk("C20.ObjectHoldsNoHandle", ~Ev.objholds)
          \* what the proxies saw must agree with the state of the real file objects at the end
          /\ Chk("C20.Harness.consistent", {Ev.really_open[i] : i \in DOMAIN Ev.really_open} = {x \in DOMAIN h : h[x].open})

TNext == HasNext /\ Advance /\ (TBegin \/ TOpen \/ TIo \/ TClose \/ TEnd)
TSpec == TInit /\ [][TNext]_<<tid, l, h, phase>>
=============================================================================
