------------------------------ MODULE LasReadAlgo ------------------------------
(***************************************************************************)
(* Algorithm layer for reading (lasio/reader.py, lasio/las.py): a           *)
(* transcription of HOW lasio reads, on the abstract texts of LasRead.tla.  *)
(*   - find_sections_in_file: (first, last) physical line numbers per title,*)
(*     last inclusive for every section                                     *)
(*   - parse_header_items_section: walk from the title to `last`, skipping  *)
(*     blank and comment lines                                              *)
(*   - the ~Other loop                                                      *)
(*   - provisional steering values: VERS/WRAP/DLM from ~V, NULL from ~W     *)
(*   - inspect_data_section: token counts of the first <= 21 data lines    *)
(*     (blank and comment lines not counted), -1 when inconsistent          *)
(*   - column count handed to the reader: sniffed; declared when            *)
(*     inconsistent or when the file is wrapped                             *)
(*   - numpy engine: genfromtxt(skip_header = first+1, max_rows = number of *)
(*     PHYSICAL lines of the section) -- it counts data rows, so blank and  *)
(*     comment lines make it run past the section end into the next title,  *)
(*     fail, and fall back to the normal engine                             *)
(*   - normal engine: token stream of the data lines up to `last`, reshaped *)
(*   - binding of columns to declared curves, NaN fill, NULL replacement    *)
(* ReadInstances checks  AlgoRead = LasRead!Read  on every instance (the    *)
(* refinement), and the harness compares AlgoPath (numpy / fallback) with   *)
(* what the LASIO_VERIF hook reports.                                       *)
(***************************************************************************)
EXTENDS Integers, Sequences, FiniteSets, SequencesExt, FiniteSetsExt
R == INSTANCE LasRead

\* ---- scanner: one record per title line, in file order (0-based line numbers as in the code) -----------------
Titles(text) == SetToSortSeq(R!TitlesAt(text), <)
\* (first, last) as the code numbers them (0-based): last = the line before the next title, or the last line of the file
Scan(text) == LET ts == Titles(text)
              IN [j \in DOMAIN ts |-> [first |-> ts[j] - 1,
                                       last  |-> (IF j < Len(ts) THEN ts[j + 1] - 1 ELSE Len(text)) - 1,
                                       sec   |-> text[ts[j]].sec]]
LastLine(text, j) == LET ts == Titles(text) IN IF j < Len(ts) THEN ts[j + 1] - 1 ELSE Len(text)     \* 1-based, inclusive

\* ---- header items: lines first+1 .. last of the section, blank/comment/junk skipped --------------------------------
RECURSIVE WalkItems(_, _, _, _)
WalkItems(text, i, last, acc) ==
    IF i > last THEN acc
    ELSE IF text[i].k = "title" THEN acc                       \* "if line.startswith('~'): break"
    ELSE WalkItems(text, i + 1, last, IF text[i].k = "item" THEN Append(acc, <<text[i].m, text[i].v>>) ELSE acc)
SectionItemsAlgo(text, j) == WalkItems(text, Titles(text)[j] + 1, LastLine(text, j), <<>>)

SecIndex(text, sec) == LET ts == Titles(text)  hit == {j \in DOMAIN ts : text[ts[j]].sec = sec} IN IF hit = {} THEN 0 ELSE Max(hit)
HeaderAlgo(text) ==
    LET ts == Titles(text)
        secs == {text[ts[j]].sec : j \in DOMAIN ts} \ {"O", "A"}
    IN [n \in {R!SecName(s) : s \in secs} |->
           LET s == CHOOSE s \in secs : R!SecName(s) = n IN SectionItemsAlgo(text, SecIndex(text, s))]
FirstValue(items, m, default) == LET hit == {i \in DOMAIN items : items[i][1] = m} IN IF hit = {} THEN default ELSE items[Min(hit)][2]
VItems(text) == IF SecIndex(text, "V") = 0 THEN <<>> ELSE SectionItemsAlgo(text, SecIndex(text, "V"))
WItems(text) == IF SecIndex(text, "W") = 0 THEN <<>> ELSE SectionItemsAlgo(text, SecIndex(text, "W"))
WrapAlgo(text) == FirstValue(VItems(text), "WRAP", "NO")
DlmAlgo(text)  == FirstValue(VItems(text), "DLM", "SPACE")
NullAlgo(text) == FirstValue(WItems(text), "NULL", "none")

\* ---- ~Other ------------------------------------------------------------------------------------------------------------
OtherAlgo(text) ==
    LET j == SecIndex(text, "O") IN
    IF j = 0 THEN <<>>
    ELSE LET a == Titles(text)[j] + 1  b == LastLine(text, j)
         IN [i \in 1..(b - a + 1) |-> CASE text[a + i - 1].k = "free" -> text[a + i - 1].id
                                        [] text[a + i - 1].k = "blank" -> 0 [] OTHER -> -1]

\* ---- data section ------------------------------------------------------------------------------------------------------
AIdx(text) == SecIndex(text, "A")
ALines(text) == LET j == AIdx(text) IN IF j = 0 THEN <<>>
                ELSE LET a == Titles(text)[j] + 1  b == LastLine(text, j) IN [i \in 1..(b - a + 1) |-> text[a + i - 1]]
DataOf(lines) == SelectSeq(lines, LAMBDA ln : ln.k = "data")
\* sniffing: the first <= 21 DATA lines are looked at; blank and comment lines neither count nor use up the window
\* (before repair D37 the window was 21 physical lines: with SniffPhysical == TRUE this module describes that algorithm,
\* and ReadInstances!AlgoRefinesIntent fails on the "tallhead" instances of family C07)
SniffPhysical == FALSE
Sniff(text) ==
    LET ls == IF SniffPhysical THEN ALines(text) ELSE DataOf(ALines(text))
        looked == SubSeq(ls, 1, IF Len(ls) < 21 THEN Len(ls) ELSE 21)
        counts == {Len(looked[i].cells) : i \in {x \in DOMAIN looked : looked[x].k = "data"}}
    IN IF Cardinality(counts) = 1 THEN CHOOSE c \in counts : TRUE ELSE -1
DeclaredAlgo(text) == IF SecIndex(text, "C") = 0 THEN <<>> ELSE SectionItemsAlgo(text, SecIndex(text, "C"))
NColumns(text) ==
    LET s == Sniff(text)  d == Len(DeclaredAlgo(text))
    IN IF s = -1 THEN d ELSE IF WrapAlgo(text) = "YES" /\ d > 0 THEN d ELSE s

\* numpy engine: applicable (no fallback) iff genfromtxt can stop by itself
HasDeco(text) == \E i \in DOMAIN ALines(text) : ALines(text)[i].k # "data"
ALast(text) == AIdx(text) = Len(Titles(text))
HasText(text) == \E i \in DOMAIN ALines(text) : ALines(text)[i].k = "data" /\ \E c \in DOMAIN ALines(text)[i].cells : ALines(text)[i].cells[c].cls = "TEXT"
NumpyUsable(text, o) ==
    /\ WrapAlgo(text) # "YES" /\ o.null_policy = "strict"             \* otherwise the normal engine is selected outright
    /\ ~HasText(text)                                                 \* loose=False: text raises
    \* genfromtxt splits on whitespace: with a comma delimiter 'x,' tokens raise unless every line holds a single value (TAB is fine)
    /\ (DlmAlgo(text) = "COMMA" => \A i \in DOMAIN DataOf(ALines(text)) : Len(DataOf(ALines(text))[i].cells) = 1)
    /\ (ALast(text) \/ ~HasDeco(text))                                \* else max_rows over-counts and the next title is hit
    /\ DataOf(ALines(text)) # <<>>                                    \* an empty block gives a warning-only empty array (falls back)
AlgoPath(text, o, engine) ==
    IF engine = "normal" THEN "normal"
    ELSE IF WrapAlgo(text) = "YES" \/ o.null_policy # "strict" THEN "normal"
    ELSE IF NumpyUsable(text, o) THEN "numpy" ELSE "normal-after-fallback"

\* both engines deliver the same matrix when they succeed: rows of cells
RowsAlgo(text) ==
    LET dl == DataOf(ALines(text))  n == NColumns(text)
        flat == FlattenSeq([i \in DOMAIN dl |-> dl[i].cells])
    IN IF n <= 0 \/ flat = <<>> THEN <<>> ELSE [r \in 1..(Len(flat) \div n) |-> SubSeq(flat, (r - 1) * n + 1, r * n)]
TextColAlgo(rows, c) == rows # <<>> /\ rows[1][c].cls = "TEXT"        \* dtype decided from the FIRST row
CellAlgo(rows, r, c, o, hasNull) ==
    IF rows[r][c].cls = "NULLEQ" /\ c > 1 /\ o.null_policy = "strict" /\ hasNull /\ ~TextColAlgo(rows, c) THEN -1
    ELSE CASE rows[r][c].cls = "FIN" -> rows[r][c].id [] rows[r][c].cls = "NULLEQ" -> -2
           [] rows[r][c].cls = "NEAR" -> -3 [] rows[r][c].cls = "ZERO" -> -4 [] OTHER -> 1000000 + rows[r][c].id
CurvesAlgo(text, o) ==
    LET rows == RowsAlgo(text)  dcl == DeclaredAlgo(text)  d == Len(dcl)
        c == IF rows = <<>> THEN 0 ELSE Len(rows[1])
        n == IF c > d THEN c ELSE d
        hasNull == NullAlgo(text) # "none"
    IN [j \in 1..n |-> [m |-> IF j <= d THEN dcl[j][1] ELSE "",
                        data |-> IF j <= c THEN [r \in DOMAIN rows |-> CellAlgo(rows, r, j, o, hasNull)]
                                 ELSE [r \in DOMAIN rows |-> -1]]]
CustomAlgo(text) == LET ts == Titles(text)
                        keep == SelectSeq([j \in DOMAIN ts |-> j], LAMBDA j : text[ts[j]].sec \notin R!Std /\ SecIndex(text, text[ts[j]].sec) = j)
                    IN [i \in DOMAIN keep |-> text[ts[keep[i]]].sec]
AlgoRead(text, o) == [header |-> HeaderAlgo(text), other |-> OtherAlgo(text), custom |-> CustomAlgo(text), curves |-> CurvesAlgo(text, o)]
=============================================================================
