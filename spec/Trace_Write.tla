----------------------------- MODULE Trace_Write -----------------------------
(* Validates recorded histories  origin ; edit* ; write^k  of real LASFile   *)
(* objects against WriteEffects.tla (property C16).                          *)
EXTENDS TraceBase, FiniteSets, SequencesExt
VARIABLES snap, must, lastsig, lasttext
W == INSTANCE WriteEffects

TInit == tid \in 1..NT /\ l = 1 /\ snap = <<>> /\ must = FALSE /\ lastsig = "" /\ lasttext = ""

\* the index was created in memory, or the file's STOP disagreed with its data
TOrigin == /\ Ev.op = "origin" /\ snap' = Ev.snap
           /\ must' = (Ev.kind \in {"build", "read_badstop"})
           /\ lastsig' = "" /\ lasttext' = ""
TEdit   == /\ Ev.op = "edit" /\ snap' = Ev.snap
           /\ must' = (must \/ Ev.what = "index")          \* ... or changed in memory
           /\ lastsig' = "" /\ lasttext' = ""
TWrite  == /\ Ev.op = "write"
           /\ LET w == Ev.wrap # "none" IN
              /\ Chk("C16.Harness.pre", Ev.pre = snap)
              /\ Chk("C16.DataUntouched", W!DataUntouched(Ev.pre, Ev.post))
              /\ Chk("C16.SameSections", W!SameSections(Ev.pre, Ev.post))
              /\ Chk("C16.OrderAndMnemonics", W!SameSections(Ev.pre, Ev.post) => W!OrderAndMnemonics(Ev.pre, Ev.post, w))
              /\ Chk("C16.OnlyDocumentedFields", W!SameSections(Ev.pre, Ev.post) => W!OnlyDocumentedFields(Ev.pre, Ev.post, w))
              /\ Chk("C16.VersUntouched", W!VersUntouched(Ev.pre, Ev.post))
              /\ Chk("C16.Deterministic", lastsig = Ev.sig => lasttext = Ev.text)
              /\ Chk("C16.NoFurtherChange", lastsig = Ev.sig => Ev.post = Ev.pre)
              /\ Chk("C16.Truthful", must => W!Truthful(Ev.out))
           /\ snap' = Ev.post /\ lastsig' = Ev.sig /\ lasttext' = Ev.text /\ UNCHANGED must

TNext == HasNext /\ Advance /\ (TOrigin \/ TEdit \/ TWrite)
TSpec == TInit /\ [][TNext]_<<tid, l, snap, must, lastsig, lasttext>>
=============================================================================
