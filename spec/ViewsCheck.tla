----------------------------- MODULE ViewsCheck -----------------------------
(* Enumerates the 256 unit-class combinations and the to_csv option product,  *)
(* checks basic sanity of the tables and prints them for the harness.         *)
EXTENDS Integers, Sequences, FiniteSets, TLC, Json
CONSTANTS Emit
VARIABLES inst, stage
V == INSTANCE Views
Init == stage = 0 /\ inst = [kind |-> "seed"]
Next == /\ stage = 0 /\ stage' = 1
        /\ \/ \E us \in [1..4 -> V!UnitClasses] : inst' = [kind |-> "unit", classes |-> us, expect |-> V!IndexUnit(us)]
           \/ \E mn \in {"true", "false", "list"}, un \in {"true", "false", "list"}, loc \in {"line", "[]", "()"} :
                 inst' = [kind |-> "csv", mn |-> mn, un |-> un, loc |-> loc, header |-> V!CsvHeader(mn, un, loc)]
Spec == Init /\ [][Next]_<<inst, stage>>
\* a single recognised class wins; any two different recognised classes conflict
TableSane == (stage = 1 /\ inst.kind = "unit") =>
                LET r == V!Recognised(inst.classes) IN (inst.expect = "none") = (Cardinality(r) # 1)
EmitInst == (Emit /\ stage = 1) => PrintT(ToJson(inst))
=============================================================================
