------------------------------ MODULE Section ------------------------------
(***************************************************************************)
(* Intent layer for one header section (lasio.SectionItems).                *)
(*                                                                         *)
(* A section is a sequence of items [id, o, s, v]:                          *)
(*   id  identity of the item object (an integer handed out by the harness)*)
(*   o   original mnemonic (what the file said / what write() emits)       *)
(*   s   session mnemonic (what lookups use)                                *)
(*   v   value (small integer class)                                        *)
(* xf is TRUE when the section was read with case normalisation            *)
(* (mnemonic_case upper/lower), in which case lookups ignore case.         *)
(*                                                                         *)
(* Every operator below states ONLY what properties C13 / C15 state.  The  *)
(* clauses are separate named operators so that the trace specification    *)
(* can report which one an observed step breaks, and so that the algorithm *)
(* layer (SectionAlgo) can be checked against exactly the same text.       *)
(***************************************************************************)
EXTENDS Integers, Sequences, FiniteSets, SequencesExt, FiniteSetsExt, PyList

CONSTANTS Up,      \* function: name |-> upper-case name (delegated to the projection: TLA+ strings are atomic)
          Blank    \* set of names that are blank after stripping

Key(xf, x)  == IF xf THEN Up[x] ELSE x
Useful(o)   == IF o \in Blank THEN "UNKNOWN" ELSE o

Lookup(xf, it, k) == LET m == {i \in DOMAIN it : Key(xf, it[i].s) = Key(xf, k)}
                     IN IF m = {} THEN 0 ELSE Min(m)

Distinct(xf, it) == \A i, j \in DOMAIN it : i # j => Key(xf, it[i].s) # Key(xf, it[j].s)
Resolves(xf, it) == \A i \in DOMAIN it : Lookup(xf, it, it[i].s) = i

GroupOf(xf, it, p) == {j \in DOMAIN it : Key(xf, Useful(it[j].o)) = Key(xf, Useful(it[p].o))}
Rank(g, j)         == Cardinality({x \in g : x <= j})
NumberedGroup(xf, it, p) ==
    LET g == GroupOf(xf, it, p)
    IN \A j \in g : it[j].s = IF Cardinality(g) > 1
                              THEN Useful(it[j].o) \o ":" \o ToString(Rank(g, j))
                              ELSE Useful(it[j].o)

\* the known conflict of the statement's own clauses (finding D14): a literal name "X:k"
\* next to a group of >= k items whose useful name is X
SuffixCollision(xf, it) ==
    \E i, j \in DOMAIN it : /\ i # j
                            /\ Key(xf, it[i].s) = Key(xf, it[j].s)
                            /\ Key(xf, Useful(it[i].o)) # Key(xf, Useful(it[j].o))

--------------------------------------------------------------------------
\* What an operation does to the list of item identities (plain list semantics).
Adds(xf, pre, e) ==
    \/ e.op \in {"append", "insert", "setitem"}
    \/ e.op = "setidx" /\ PyPos(Len(pre), e.i) # 0          \* s[i] = item replaces position i, exactly as in a list
    \/ e.op = "get" /\ e.add /\ Lookup(xf, pre, e.k) = 0

ExpIds(xf, pre, e) ==
    CASE e.op = "append"  -> Append(Ids(pre), e.nid)
      [] e.op = "insert"  -> PyInsert(Ids(pre), e.i, e.nid)
      [] e.op = "delidx"  -> LET p == PyPos(Len(pre), e.i) IN IF p = 0 THEN Ids(pre) ELSE RemoveAt(Ids(pre), p)
      [] e.op = "delkey"  -> LET p == Lookup(xf, pre, e.k) IN IF p = 0 THEN Ids(pre) ELSE RemoveAt(Ids(pre), p)
      [] e.op = "setitem" -> LET p == Lookup(xf, pre, e.k) IN IF p = 0 THEN Append(Ids(pre), e.nid)
                                                               ELSE [Ids(pre) EXCEPT ![p] = e.nid]
      [] e.op = "get"     -> IF e.add /\ Lookup(xf, pre, e.k) = 0 THEN Append(Ids(pre), e.nid) ELSE Ids(pre)
      [] e.op = "setidx"  -> LET p == PyPos(Len(pre), e.i) IN IF p = 0 THEN Ids(pre) ELSE [Ids(pre) EXCEPT ![p] = e.nid]
      [] e.op = "delslice" -> LET gone == Range(Ids(PySlice(pre, e.a, e.b)))          \* del s[a:b], exactly as in a list
                              IN SelectSeq(Ids(pre), LAMBDA x : x \notin gone)
      [] OTHER            -> Ids(pre)

ExpExc(xf, pre, e) ==
    CASE e.op = "delidx"   -> IF PyPos(Len(pre), e.i) = 0 THEN "IndexError" ELSE ""
      [] e.op = "delkey"   -> IF Lookup(xf, pre, e.k) = 0 THEN "KeyError" ELSE ""
      [] e.op = "setvalue" -> IF Lookup(xf, pre, e.k) = 0 THEN "KeyError" ELSE ""
      [] e.op = "setidx"   -> IF PyPos(Len(pre), e.i) = 0 THEN "IndexError" ELSE ""
      [] OTHER             -> ""

IsReuse(e) == "re" \in DOMAIN e /\ e.re
NewName(e) == IF e.op = "get" THEN e.k ELSE e.n

C_Ids(xf, pre, e, post)  == Ids(post) = ExpIds(xf, pre, e)
C_Exc(xf, pre, e, post)  == e.exc = ExpExc(xf, pre, e)
\* the original mnemonic of an item never changes; a new item carries the name it was given
C_Frozen(xf, pre, e, post) ==
    /\ \A i \in DOMAIN pre, j \in DOMAIN post : pre[i].id = post[j].id => pre[i].o = post[j].o
    /\ Adds(xf, pre, e) => LET p == PosOfId(post, e.nid) IN p # 0 /\ post[p].o = NewName(e)
\* values: only the addressed item's value changes, and only by set-value
C_Values(xf, pre, e, post) ==
    \A i \in DOMAIN pre, j \in DOMAIN post : pre[i].id = post[j].id =>
        post[j].v = IF e.op = "setvalue" /\ Lookup(xf, pre, e.k) = i THEN e.v ELSE pre[i].v
\* after an insertion (append, insert, get(add=True)) the items sharing the new name are numbered :1..:n
C_Numbered(xf, pre, e, post) ==
    (Adds(xf, pre, e) /\ e.op \notin {"setitem", "setidx"}) =>
        LET p == PosOfId(post, e.nid)
        IN p # 0 => \/ NumberedGroup(xf, post, p)
                    \* an item that is put back after a deletion still carries the session name it had ("A:2"); when it is the only
                    \* item of its name the statement asks for nothing but distinctness and resolution ("unique names are left untouched")
                    \/ IsReuse(e) /\ Cardinality(GroupOf(xf, post, p)) = 1
\* ... and every other item keeps the session name it had
C_Untouched(xf, pre, e, post) ==
    IF Adds(xf, pre, e)
    THEN LET p == PosOfId(post, e.nid)
         IN p # 0 => \A j \in DOMAIN post \ GroupOf(xf, post, p) :
                        \A i \in DOMAIN pre : pre[i].id = post[j].id => pre[i].s = post[j].s
    ELSE IF e.op \in {"delidx", "delkey", "delslice"}
         THEN TRUE       \* the statement fixes nothing about names after a deletion but distinctness
         ELSE \A i \in DOMAIN pre, j \in DOMAIN post : pre[i].id = post[j].id => pre[i].s = post[j].s
C_Distinct(xf, post) == Distinct(xf, post)
C_Resolves(xf, post) == Resolves(xf, post)
\* get(): returns the item the key resolves to, else a new item named by the key
C_Ret(xf, pre, e, post) ==
    e.op = "get" =>
        LET p == Lookup(xf, pre, e.k)
        IN IF p # 0 THEN e.rid = pre[p].id
           ELSE /\ e.reto = e.k
                /\ IF e.add THEN e.rid = e.nid ELSE e.rid \notin Range(Ids(post))

IntentStep(xf, pre, e, post) ==
    /\ C_Ids(xf, pre, e, post) /\ C_Exc(xf, pre, e, post) /\ C_Frozen(xf, pre, e, post)
    /\ C_Values(xf, pre, e, post) /\ C_Numbered(xf, pre, e, post) /\ C_Untouched(xf, pre, e, post)
    /\ C_Ret(xf, pre, e, post)

--------------------------------------------------------------------------
\* C15: observations on one state
ProbeKeyOK(xf, it, q) ==        \* q = [k, contains, item, attr]   (item/attr: id, 0 = KeyError/AttributeError, -1 = not probed)
    LET p == Lookup(xf, it, q.k)
    IN /\ q.contains = (p # 0)
       /\ q.item = IF p = 0 THEN 0 ELSE it[p].id
       /\ q.attr \in {-1, IF p = 0 THEN 0 ELSE it[p].id}
\* LASFile[k] for a session mnemonic k of the curve section returns the data of exactly that curve (-1 = not probed)
ProbeLasOK(xf, it, q) == q.las \in {-1, LET p == Lookup(xf, it, q.k) IN IF p = 0 THEN 0 ELSE it[p].id}
\* write() emits the original mnemonics, so after write -> read the originals are the same, every group is numbered :1..:n,
\* and a section that was numbered that way gets the same session names again
FreshNumbered(xf, it) == \A i \in DOMAIN it : NumberedGroup(xf, it, i)
RoundTripOK(pre, post) == /\ Origs(post) = Origs(pre)
                          /\ FreshNumbered(FALSE, post)
                          /\ (FreshNumbered(FALSE, pre) => Sess(post) = Sess(pre))
ProbeIntOK(it, q)   == q.item = LET p == PyPos(Len(it), q.i) IN IF p = 0 THEN 0 ELSE it[p].id
ProbeSliceOK(it, q) == q.ids = Ids(PySlice(it, q.a, q.b))
=============================================================================
