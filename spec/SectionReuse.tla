---------------------------- MODULE SectionReuse ----------------------------
(***************************************************************************)
(* SectionAlgo plus one more kind of history: an item that was taken out   *)
(* of the section (del s[i], del s[key]) is put back later by append /     *)
(* insert.  It is the same Python object, so it still carries the session  *)
(* mnemonic it had when it left ("A:2", "UNKNOWN:1").  The algorithm       *)
(* re-numbers the group of its *useful* name, which repairs the stale name *)
(* whenever the group has two members or more; TLC checks that every such  *)
(* step is a step of the intent layer.  RenumberBy = "session" is the      *)
(* design-level image of the seeded change C13-19 (re-number by the        *)
(* session name of the new item): the refinement check must fail for it.   *)
(***************************************************************************)
EXTENDS SectionAlgo
CONSTANT RenumberBy          \* "useful" (the code) or "session" (sensitivity run)
VARIABLE spare               \* <<>> or <<item>>: the item most recently removed from the section
vars2 == <<items, xf, last, spare>>

Removed(pre, post) == SelectSeq(pre, LAMBDA x : \A j \in DOMAIN post : post[j].id # x.id)
PutBack(it, x, i, sp, id) ==
    LET item == [id |-> id, o |-> sp.o, s |-> sp.s, v |-> sp.v]           \* stale session name and all
        pos  == IF i = 99 THEN Append(it, item) ELSE PyInsert(it, i, item)
    IN Renumber(pos, x, IF RenumberBy = "useful" THEN S!Useful(sp.o) ELSE sp.s)

Init2 == Init /\ spare = <<>>
Plain == /\ Next
         /\ spare' = IF last'.op \in {"delidx", "delkey"} /\ Len(items') < Len(items)
                     THEN <<Removed(items, items')[1]>> ELSE spare
Back  == /\ spare # <<>>
         /\ \E i \in (-(Len(items) + 1)..(Len(items) + 1)) \cup {99} :
              /\ items' = PutBack(items, xf, i, spare[1], nid)
              /\ Len(items') <= MaxLen
              /\ last' = IF i = 99 THEN [op |-> "append", n |-> spare[1].o, nid |-> nid, re |-> TRUE, exc |-> ""]
                         ELSE [op |-> "insert", i |-> i, n |-> spare[1].o, nid |-> nid, re |-> TRUE, exc |-> ""]
         /\ spare' = <<>>
         /\ UNCHANGED xf
Next2 == Plain \/ Back
Spec2 == Init2 /\ [][Next2]_vars2

\* a value set by s[key] = 1 travels with the item, so the frame clause on values does not apply to the item put back
\* (it is not in the pre-state); everything else of the intent step applies unchanged
Refines2 == [][S!IntentStep(xf, items, last', items')]_vars2
\* what the statement leaves open, shown reachable (expected to be VIOLATED in the sensitivity sense: a witness exists)
NoLoneStale == \A i \in DOMAIN items : Cardinality(S!GroupOf(xf, items, i)) = 1 => items[i].s = S!Useful(items[i].o)
\* every put-back transition, for replay into the implementation
EmitBack == (Emit /\ "re" \in DOMAIN last' /\ spare # <<>> /\ spare' = <<>>) =>
               PrintT(ToJson([xf |-> xf, pre |-> items, spare |-> spare[1], e |-> last', post |-> items']))
View2 == <<[i \in DOMAIN items |-> <<items[i].o, items[i].s, items[i].v>>], xf,
           [i \in DOMAIN spare |-> <<spare[i].o, spare[i].s, spare[i].v>>]>>
=============================================================================
