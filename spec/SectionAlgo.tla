---------------------------- MODULE SectionAlgo ----------------------------
(***************************************************************************)
(* Algorithm layer for lasio.SectionItems: a transcription of the          *)
(* mechanisms in lasio/las_items.py (first match on the session mnemonic,  *)
(* assign_duplicate_suffixes(useful) after append / insert / set_item,     *)
(* nothing after a deletion).  TLC                                         *)
(*   (1) checks that every step of this algorithm is a step the intent     *)
(*       layer (Section.tla) allows -- the refinement check --, and        *)
(*   (2) prints every transition it explores as JSON; the harness replays  *)
(*       each of them on a real SectionItems object.                       *)
(***************************************************************************)
EXTENDS Integers, Sequences, FiniteSets, TLC, Json, SequencesExt, FiniteSetsExt, PyList

CONSTANTS Names,     \* original mnemonics handed to new items
          KeyPool,   \* literal keys used by delkey / setitem / setvalue / get
          MaxLen, MaxDepth, Emit

VARIABLES items, xf, last
vars == <<items, xf, last>>
\* identity handed to the next new item: the smallest one not in use (keeps the state space finite)
nid == Min((1..(MaxLen + 2)) \ {items[i].id : i \in DOMAIN items})

\* --- the upper-case table for every name this model can produce ---------
BaseUp == ("A" :> "A") @@ ("a" :> "A") @@ ("B" :> "B") @@ ("b" :> "B") @@ ("" :> "") @@ (" " :> " ")
          @@ ("UNKNOWN" :> "UNKNOWN") @@ ("A:1" :> "A:1") @@ ("a:1" :> "A:1") @@ ("A:2" :> "A:2")
          @@ ("1" :> "1") @@ ("Z" :> "Z") @@ ("UNKNOWN:1" :> "UNKNOWN:1")
Sfx(b, k) == b \o ":" \o ToString(k)
UpTab == [x \in DOMAIN BaseUp \cup {Sfx(b, k) : b \in DOMAIN BaseUp, k \in 1..(MaxLen + 1)} |->
            IF x \in DOMAIN BaseUp THEN BaseUp[x]
            ELSE LET bk == CHOOSE bk \in (DOMAIN BaseUp) \X (1..(MaxLen + 1)) : Sfx(bk[1], bk[2]) = x
                 IN Sfx(BaseUp[bk[1]], bk[2])]
S == INSTANCE Section WITH Up <- UpTab, Blank <- {"", " "}

\* --- the algorithm --------------------------------------------------------
Renumber(it, x, u) ==        \* assign_duplicate_suffixes(u)
    LET locs == {i \in DOMAIN it : S!Key(x, S!Useful(it[i].o)) = S!Key(x, u)}
    IN IF Cardinality(locs) > 1
       THEN [i \in DOMAIN it |-> IF i \in locs
                                 THEN [it[i] EXCEPT !.s = S!Useful(it[i].o) \o ":" \o ToString(S!Rank(locs, i))]
                                 ELSE it[i]]
       ELSE it
New(n, id) == [id |-> id, o |-> n, s |-> S!Useful(n), v |-> 0]

Effect(it, x, e) ==
    CASE e.op = "append"  -> Renumber(Append(it, New(e.n, e.nid)), x, S!Useful(e.n))
      [] e.op = "insert"  -> Renumber(PyInsert(it, e.i, New(e.n, e.nid)), x, S!Useful(e.n))
      [] e.op = "delidx"  -> LET p == PyPos(Len(it), e.i) IN IF p = 0 THEN it ELSE RemoveAt(it, p)
      [] e.op = "delkey"  -> LET p == S!Lookup(x, it, e.k) IN IF p = 0 THEN it ELSE RemoveAt(it, p)
      [] e.op = "setitem" -> LET p == S!Lookup(x, it, e.k)
                             IN IF p = 0 THEN Renumber(Append(it, New(e.n, e.nid)), x, S!Useful(e.n))
                                ELSE Renumber([it EXCEPT ![p] = New(e.n, e.nid)], x, S!Useful(e.n))
      [] e.op = "setvalue" -> LET p == S!Lookup(x, it, e.k) IN IF p = 0 THEN it ELSE [it EXCEPT ![p].v = e.v]
      [] e.op = "get"     -> IF e.add /\ S!Lookup(x, it, e.k) = 0
                             THEN Renumber(Append(it, New(e.k, e.nid)), x, S!Useful(e.k)) ELSE it

\* the event as the harness will log it (return values as the algorithm predicts them)
Complete(it, x, e) ==
    LET p == IF e.op \in {"delkey", "setvalue", "get", "setitem"} THEN S!Lookup(x, it, e.k) ELSE 0
    IN e @@ [exc |-> S!ExpExc(x, it, e)]
         @@ (IF e.op = "get" THEN [rid  |-> IF p # 0 THEN it[p].id ELSE IF e.add THEN e.nid ELSE -1,
                                   reto |-> IF p # 0 THEN it[p].o ELSE e.k]
             ELSE << >>)

Ops(it) ==
    {[op |-> "append", n |-> n, nid |-> nid] : n \in Names}
    \cup {[op |-> "insert", i |-> i, n |-> n, nid |-> nid] : i \in -(Len(it) + 1)..(Len(it) + 1), n \in Names}
    \cup {[op |-> "delidx", i |-> i] : i \in -(Len(it) + 1)..Len(it)}
    \cup {[op |-> "delkey", k |-> k] : k \in KeyPool}
    \cup {[op |-> "setitem", k |-> k, n |-> n, nid |-> nid] : k \in KeyPool, n \in Names}
    \cup {[op |-> "setvalue", k |-> k, v |-> 1] : k \in KeyPool}
    \cup {[op |-> "get", k |-> k, add |-> a, nid |-> nid] : k \in KeyPool, a \in BOOLEAN}

Init == items = <<>> /\ xf \in BOOLEAN /\ last = [op |-> "init"]
Next == \E e \in Ops(items) :
          /\ items' = Effect(items, xf, e)
          /\ Len(items') <= MaxLen
          /\ last' = Complete(items, xf, e)
          /\ UNCHANGED xf
Spec == Init /\ [][Next]_vars

Depth == TLCGet("level") <= MaxDepth

\* --- (1) refinement: the algorithm only takes steps the intent layer allows ---
Refines == [][S!IntentStep(xf, items, last', items')]_vars
DistinctOrKnown == S!Distinct(xf, items) \/ S!SuffixCollision(xf, items)      \* D14 is a recorded finding
ResolvesInv == S!Distinct(xf, items) => S!Resolves(xf, items)
\* the unrestricted invariant, expected to be violated by the D14 class only (used to show the finding at design level)
DistinctStrict == S!Distinct(xf, items)

\* --- C17 at design level: what pickle and copy.deepcopy do to a section ---------------------------
\* pickle rebuilds the list with list.extend (no renumbering) and every item from (original, session) -- identity;
\* copy.deepcopy rebuilds the list through SectionItems.__deepcopy__, which also extends without renumbering.
\* (Before the repair deepcopy went through SectionItems.append, i.e. CopyByAppend, which renumbers stale suffixes.)
RECURSIVE CopyByAppend(_, _, _)
CopyByAppend(src, x, acc) == IF src = <<>> THEN acc
                             ELSE CopyByAppend(Tail(src), x, Renumber(Append(acc, Head(src)), x, S!Useful(Head(src).o)))
CopyOf(it, x, how) == IF how = "deepcopy-by-append" THEN CopyByAppend(it, x, <<>>) ELSE it
CopyKeepsNames  == \A how \in {"pickle", "deepcopy"} : CopyOf(items, xf, how) = items
CopyByAppendKeepsNames == CopyOf(items, xf, "deepcopy-by-append") = items     \* violated: the design-level counterexample of D28

\* --- (2) every explored transition, for replay into the implementation ---
EmitEdge == Emit => PrintT(ToJson([xf |-> xf, pre |-> items, e |-> last', post |-> items']))
\* states that differ only in the identities of their items, or in how they were reached, are the same state
View == <<[i \in DOMAIN items |-> <<items[i].o, items[i].s, items[i].v>>], xf>>
=============================================================================
