---------------------------- MODULE WriteEffects ----------------------------
(***************************************************************************)
(* Intent layer for property C16: what LASFile.write() may change in       *)
(* memory, determinism, and truthfulness of STRT/STOP/STEP in the output.  *)
(* A snapshot S is [secs, arrays]: secs is a sequence of [name, items],    *)
(* an item is [o, ou, s, u, v, d] (original, upper-cased original, session,*)
(* unit, value with its type, description) -- all strings.                 *)
(***************************************************************************)
EXTENDS Integers, Sequences, FiniteSets, SequencesExt

Empty(v) == v \in {"str:''", "NoneType:None"}
\* the documented in-memory effects of write() on one item
Allowed(sec, pos, a, b, wrapGiven) ==
    \/ a = b
    \/ /\ sec = "Well" /\ a.ou \in {"STRT", "STOP", "STEP"}                    \* value and unit refreshed
       /\ a.o = b.o /\ a.s = b.s /\ a.d = b.d
    \/ /\ sec = "Curves" /\ pos = 1                                             \* first curve's unit aligned
       /\ [a EXCEPT !.u = b.u] = b
    \/ /\ sec \in {"Well", "Parameter"}                                         \* empty value normalised
       /\ [a EXCEPT !.v = b.v] = b /\ Empty(a.v)
       /\ b.v = IF a.u # "" /\ a.v # "int:0" THEN "int:0" ELSE "str:''"
    \/ /\ sec = "Version" /\ wrapGiven /\ a.ou = "WRAP" /\ b.ou = "WRAP"        \* WRAP item when wrap= is given

NoWrap(items) == SelectSeq(items, LAMBDA it : it.ou # "WRAP")
Items(S, k, wrapGiven) == IF S.secs[k].name = "Version" /\ wrapGiven THEN NoWrap(S.secs[k].items) ELSE S.secs[k].items

DataUntouched(a, b)   == a.arrays = b.arrays
SameSections(a, b)    == [k \in DOMAIN a.secs |-> a.secs[k].name] = [k \in DOMAIN b.secs |-> b.secs[k].name]
OrderAndMnemonics(a, b, w) ==
    \A k \in DOMAIN a.secs :
        LET x == Items(a, k, w)  y == Items(b, k, w)
        IN [i \in DOMAIN x |-> <<x[i].o, x[i].s, x[i].d>>] = [i \in DOMAIN y |-> <<y[i].o, y[i].s, y[i].d>>]
OnlyDocumentedFields(a, b, w) ==
    \A k \in DOMAIN a.secs :
        LET x == Items(a, k, w)  y == Items(b, k, w)
        IN Len(x) = Len(y) /\ \A i \in DOMAIN x : Allowed(a.secs[k].name, i, x[i], y[i], w)
VersUntouched(a, b) ==
    \A k \in DOMAIN a.secs : a.secs[k].name = "Version" =>
        SelectSeq(a.secs[k].items, LAMBDA it : it.ou = "VERS") = SelectSeq(b.secs[k].items, LAMBDA it : it.ou = "VERS")
Truthful(out) == out.strt = "FIRST" /\ out.stop = "LAST" /\ out.step \in {"STEP1", "NA"} /\ out.units
=============================================================================
