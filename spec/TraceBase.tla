---------------------------- MODULE TraceBase ----------------------------
(* Common part of every trace specification: many traces per TLC run.     *)
(* The file named by the environment variable TRACE_FILE is one JSON      *)
(* object with a field "traces": a list of traces, each a list of events. *)
(* tid selects the trace (chosen in Init), l is the position in it.       *)
(* Verdicts: Chk(name, e) never blocks; when e is false it prints         *)
(*   <<"FAIL", tid, l, name>>  and the step goes on with the LOGGED state,*)
(* so the rest of the trace is still checked.  A trace is accepted when   *)
(* it was consumed to its end (register tid+Base) without a FAIL line.    *)
(* Needs -workers 1 (TLCSet/TLCGet registers).                            *)
EXTENDS Integers, Sequences, TLC, Json, IOUtils
VARIABLES tid, l

File   == JsonDeserialize(IOEnv.TRACE_FILE)
Traces == File.traces
NT     == Len(Traces)
Base   == 100

Ev == Traces[tid][l]
Chk(name, e) == IF e THEN TRUE ELSE PrintT(<<"FAIL", tid, l, name>>)
HasNext == l <= Len(Traces[tid])
Advance == l' = l + 1 /\ UNCHANGED tid

Reach == TLCSet(tid + Base, IF TLCGet(tid + Base) < l THEN l ELSE TLCGet(tid + Base))
Post  == /\ \A t \in 1..NT : IF TLCGet(t + Base) - 1 = Len(Traces[t]) THEN TRUE
                             ELSE PrintT(<<"STUCK", t, TLCGet(t + Base) - 1, Len(Traces[t])>>)
         /\ PrintT(<<"TRACES", NT>>)
ASSUME \A t \in 1..NT : TLCSet(t + Base, 0)
==========================================================================
