----------------------------- MODULE Trace_Views -----------------------------
(* Property C18: observations of to_json / to_csv / to_excel / df / depth views *)
(* of real LASFile objects against Views.tla.                                    *)
EXTENDS TraceBase, FiniteSets, SequencesExt
VARIABLE done
V == INSTANCE Views
TInit == tid \in 1..NT /\ l = 1 /\ done = FALSE

TUnit == /\ Ev.op = "unit" /\ done' = TRUE
         /\ Chk("C18.IndexUnit", Ev.index_unit = V!IndexUnit(Ev.classes))
         /\ Chk("C18.DepthViewsDefined", (V!IndexUnit(Ev.classes) # "none") = Ev.depth_defined)
         /\ Chk("C18.DepthConsistent", Ev.depth_defined => Ev.m_equals_ft_times_03048)
TJson == /\ Ev.op = "json" /\ done' = TRUE
         /\ Chk("C18.Json.strict", Ev.strict_ok)
         /\ Ev.strict_ok =>
              /\ Chk("C18.Json.sections", Ev.sections_present)
              \* (an infinite value has no JSON number: only strict parsing is demanded of it)
              /\ Chk("C18.Json.headerValues", \A i \in DOMAIN Ev.items :
                         Ev.items[i].py # "inf" => (Ev.items[i].json = V!JsonClass(Ev.items[i].py) /\ Ev.items[i].eq))
              /\ Chk("C18.Json.curves", Ev.curves_ok)
TCsv == /\ Ev.op = "csv" /\ done' = TRUE
        /\ Chk("C18.Csv.noException", Ev.exc = "")
        /\ Ev.exc = "" =>
             /\ Chk("C18.Csv.headerRows", Ev.header_kinds = V!CsvHeader(Ev.mn, Ev.un, Ev.loc))
             /\ Chk("C18.Csv.headerCells", Ev.header_cells_ok)
             /\ Chk("C18.Csv.oneRecordPerStep", Ev.nrecords = Ev.nrows)
             /\ Chk("C18.Csv.values", Ev.values_ok)
TXlsx == /\ Ev.op = "xlsx" /\ done' = TRUE
         /\ Chk("C18.Excel.noException", Ev.exc = "" \/ Ev.has_text_curve)
         /\ Chk("C18.Excel.noException.known-text-curve", Ev.exc = "" \/ ~Ev.has_text_curve)
         /\ Ev.exc = "" =>
              /\ Chk("C18.Excel.headerSheet", Ev.header_rows = V!HeaderRows(Ev.secs))
              /\ Chk("C18.Excel.headerFields", Ev.header_fields_ok)
              /\ Chk("C18.Excel.curvesSheet", Ev.curves_ok)
TDf == /\ Ev.op = "df" /\ done' = TRUE
       /\ Chk("C18.Df.noException", Ev.exc = "")
       /\ Ev.exc = "" =>
            /\ Chk("C18.Df.index", Ev.index_ok)
            /\ Chk("C18.Df.columns", Ev.columns = Tail(Ev.keys))
            /\ Chk("C18.Df.values", Ev.values_ok)
            /\ Chk("C18.Df.roundtrip.names", Ev.rt_names = Ev.names_expected)
            /\ Chk("C18.Df.roundtrip.values", Ev.rt_values_ok)
TNext == HasNext /\ Advance /\ (TUnit \/ TJson \/ TCsv \/ TXlsx \/ TDf)
TSpec == TInit /\ [][TNext]_<<tid, l, done>>
=============================================================================
