---------------------------- MODULE PyList ----------------------------
(* Python list addressing, shared by Section, Curves and the trace specs. *)
EXTENDS Integers, Sequences, SequencesExt

\* 1-based position addressed by Python index i in a list of length n, or 0 if out of range
PyPos(n, i) == IF i >= 0 THEN (IF i < n THEN i + 1 ELSE 0)
               ELSE (IF -i <= n THEN n + i + 1 ELSE 0)

\* list.insert(i, x)
PyClip(n, i) == IF i < 0 THEN (IF n + i < 0 THEN 0 ELSE n + i) ELSE (IF i > n THEN n ELSE i)
PyInsert(s, i, x) == InsertAt(s, PyClip(Len(s), i) + 1, x)

\* s[a:b] with integer bounds (None is encoded by the caller as 0 / Len)
PySlice(s, a, b) == LET lo == PyClip(Len(s), a)
                        hi == PyClip(Len(s), b)
                    IN IF hi <= lo THEN <<>> ELSE SubSeq(s, lo + 1, hi)

Ids(s)   == [i \in DOMAIN s |-> s[i].id]
Origs(s) == [i \in DOMAIN s |-> s[i].o]
Sess(s)  == [i \in DOMAIN s |-> s[i].s]
PosOfId(s, id) == LET m == {i \in DOMAIN s : s[i].id = id} IN IF m = {} THEN 0 ELSE CHOOSE i \in m : TRUE
=======================================================================
