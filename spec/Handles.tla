------------------------------ MODULE Handles ------------------------------
(***************************************************************************)
(* Intent layer for property C20: the file-handle protocol of one public   *)
(* call (read(path), read(Path), write(path|file), to_csv(path|file)).     *)
(* A handle is [owner, open]: owner = "lasio" when lasio created it through*)
(* builtins.open / io.open during the call, "caller" when the caller       *)
(* passed it in.  The call protocol is Begin ; (Open | Io | Fault | Close)* *)
(* ; End.  NoLeak must hold whenever the system is idle.                   *)
(***************************************************************************)
EXTENDS Integers, Sequences, FiniteSets

\* h : function handle-id -> [owner, open]
LasioOpen(h)  == {x \in DOMAIN h : h[x].owner = "lasio" /\ h[x].open}
NoLeak(h)     == LasioOpen(h) = {}
CallerKept(h) == \A x \in DOMAIN h : h[x].owner = "caller" => h[x].open

DoOpen(h, x, owner) == [y \in DOMAIN h \cup {x} |-> IF y = x THEN [owner |-> owner, open |-> TRUE] ELSE h[y]]
DoClose(h, x)       == [h EXCEPT ![x].open = FALSE]
=============================================================================
