----------------------------- MODULE Trace_Copy -----------------------------
(***************************************************************************)
(* Property C17: pickle / copy.deepcopy of a LASFile, a section or an item *)
(* yields an observably equal and independent object.                      *)
(* A projection P is a record of components (see harness/copying.py):      *)
(*   names  : per section <<name, type, case-normalised flag>>             *)
(*   sess   : per section the session mnemonics                            *)
(*   orig   : per section the original mnemonics                           *)
(*   fields : per section <<unit, value (with its type), description>>     *)
(*   arrays, dtypes : per curve                                            *)
(*   iunit, attrs   : index unit and every other attribute of the object   *)
(* Trace:  copy event (projections of original and copy before writing,    *)
(*         the two write() texts, projections after writing), then one or  *)
(*         more mutate events (the copy is edited, both are re-projected). *)
(***************************************************************************)
EXTENDS TraceBase
VARIABLES o, c      \* current projections of the original and of the copy

TInit == tid \in 1..NT /\ l = 1 /\ o = <<>> /\ c = <<>>

Equal(tag, a, b) ==
    /\ Chk("C17.Equal." \o tag \o ".names",   a.names = b.names)
    /\ Chk("C17.Equal." \o tag \o ".session", a.sess = b.sess)
    /\ Chk("C17.Equal." \o tag \o ".original", a.orig = b.orig)
    /\ Chk("C17.Equal." \o tag \o ".fields",  a.fields = b.fields)
    /\ Chk("C17.Equal." \o tag \o ".arrays",  a.arrays = b.arrays)
    /\ Chk("C17.Equal." \o tag \o ".dtypes",  a.dtypes = b.dtypes)
    /\ Chk("C17.Equal." \o tag \o ".index_unit", a.iunit = b.iunit)
    /\ Chk("C17.Equal." \o tag \o ".attrs",   a.attrs = b.attrs)

TCopy == /\ Ev.op = "copy"
         /\ Equal("copy", Ev.orig, Ev.copy)                 \* the copy is observably equal
         /\ Chk("C17.Equal.write", Ev.worig = Ev.wcopy)     \* byte-identical write() output
         /\ Equal("afterwrite", Ev.orig_w, Ev.copy_w)
         /\ o' = Ev.orig_w /\ c' = Ev.copy_w

TMutate == /\ Ev.op = "mutate"
           /\ Chk("C17.Independent", Ev.orig = o)           \* editing the copy never changes the original
           /\ Chk("C17.MutationVisible", Ev.copy # c)       \* (non-vacuity: the edit really happened)
           /\ o' = Ev.orig /\ c' = Ev.copy

\* the copy operation itself raised: no copy exists, so it cannot be equal (the trace ends here)
TCopyFail == /\ Ev.op = "copyfail"
             /\ Chk("C17.CopySucceeds", FALSE)
             /\ UNCHANGED <<o, c>>

TNext == HasNext /\ Advance /\ (TCopy \/ TMutate \/ TCopyFail)
TSpec == TInit /\ [][TNext]_<<tid, l, o, c>>
=============================================================================
