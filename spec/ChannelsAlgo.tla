---------------------------- MODULE ChannelsAlgo ----------------------------
(***************************************************************************)
(* Property C10 at design level: reading is a pure function of (content,   *)
(* options).  The model keeps a heap of read results and the module-level   *)
(* default header sections.  A result whose file lacks ~Well/~Parameter     *)
(* uses default items: a fresh copy per LASFile (SharedDefaults = FALSE,    *)
(* what lasio does: defaults.get_default_items() is called per object) or   *)
(* a reference to one shared set (the classic aliasing defect).  Channel,   *)
(* encoding and newline are parameters of Read that must not matter.        *)
(***************************************************************************)
EXTENDS Integers, Sequences, FiniteSets, TLC, Json
CONSTANTS Contents,        \* content ids; HasWell[c] tells whether the text carries its own ~Well section
          HasWell, Channels, Encodings, Newlines, OptIds, MaxOps, SharedDefaults, Emit
VARIABLES heap, defaults, n, last
HW == [c \in {"full", "nowell", "cyr", "nel", "commadec", "commadlm", "indent"} |-> c # "nowell"]
vars == <<heap, defaults, n, last>>

\* an object: content, options, own (its ~Well is its own), w (version counter of its own ~Well)
Result(o) == <<o.c, o.opt, IF o.own THEN o.w ELSE defaults>>

Init == heap = <<>> /\ defaults = 0 /\ n = 0 /\ last = [op |-> "init"]
Read == /\ n < MaxOps /\ Len(heap) < 3
        /\ \E c \in Contents, ch \in Channels, enc \in Encodings, nl \in Newlines, opt \in OptIds :
             /\ heap' = Append(heap, [c |-> c, opt |-> opt, own |-> (HasWell[c] \/ ~SharedDefaults), w |-> 0])
             /\ last' = [op |-> "read", c |-> c, ch |-> ch, enc |-> enc, nl |-> nl, opt |-> opt]
        /\ n' = n + 1 /\ UNCHANGED defaults
Mutate == /\ n < MaxOps
          /\ \E k \in DOMAIN heap :
               /\ IF heap[k].own THEN heap' = [heap EXCEPT ![k].w = @ + 1] /\ UNCHANGED defaults
                                 ELSE defaults' = defaults + 1 /\ UNCHANGED heap
               /\ last' = [op |-> "mutate", k |-> k]
          /\ n' = n + 1
Write == /\ n < MaxOps
         /\ \E k \in DOMAIN heap : last' = [op |-> "write", k |-> k]
         /\ n' = n + 1 /\ UNCHANGED <<heap, defaults>>
Next == Read \/ Mutate \/ Write
Spec == Init /\ [][Next]_vars

\* a read returns the pristine result of its (content, options), whatever happened before.
\* (an action property, not an invariant over `last`: the VIEW identifies states that differ only in `last`)
ReadIsFunction == [][last'.op = "read" =>
                        LET o == heap'[Len(heap')]
                        IN <<o.c, o.opt, IF o.own THEN o.w ELSE defaults'>> = <<last'.c, last'.opt, 0>>]_vars
EmitEdge == Emit => PrintT(ToJson([pre |-> [heap |-> heap, d |-> defaults, n |-> n], e |-> last',
                                   post |-> [heap |-> heap', d |-> defaults', n |-> n']]))
View == <<heap, defaults, n>>
=============================================================================
