import json
# three traces: ok, one with a corrupted field (session name), one with stale-suffix delete (allowed by loose spec)
T=[
 [{"op":"append","n":"A","items":[{"o":"A","s":"A"}]},{"op":"append","n":"A","items":[{"o":"A","s":"A:1"},{"o":"A","s":"A:2"}]},{"op":"delidx","i":0,"items":[{"o":"A","s":"A:2"}]}],
 [{"op":"append","n":"A","items":[{"o":"A","s":"A"}]},{"op":"append","n":"A","items":[{"o":"A","s":"A:1"},{"o":"A","s":"A:1"}]}],
 [{"op":"append","n":"A","items":[{"o":"A","s":"A"}]},{"op":"append","n":"B","items":[{"o":"A","s":"A"},{"o":"B","s":"B"}]},{"op":"delidx","i":1,"items":[{"o":"A","s":"A"}]}],
 [{"op":"append","n":"A","items":[{"o":"A","s":"A"}]},{"op":"delidx","i":0,"items":[{"o":"A","s":"A"}]}],
]
json.dump(T,open("traces2.json","w"))
