---- MODULE SecTrace2 ----
EXTENDS Naturals, Sequences, FiniteSets, TLC, Json, SequencesExt, IOUtils, TLCExt
Traces == JsonDeserialize("/tmp/probe/tla/traces2.json")
VARIABLES items, tid, l
tvars == <<items, tid, l>>
Useful(o) == IF o = "" THEN "UNKNOWN" ELSE o
Distinct(s) == \A i, j \in 1..Len(s) : i # j => s[i].s # s[j].s
Origs(s) == [i \in 1..Len(s) |-> s[i].o]
Numbered(s, u) == LET locs == {i \in 1..Len(s) : Useful(s[i].o) = u}
                  IN \A i \in locs : s[i].s = IF Cardinality(locs) > 1 THEN u \o ":" \o ToString(Cardinality({j \in locs : j <= i})) ELSE u
TInit == /\ tid \in 1..Len(Traces) /\ l = 1 /\ items = <<>>
Ev == Traces[tid][l]
Logged == [i \in 1..Len(Ev.items) |-> [o |-> Ev.items[i].o, s |-> Ev.items[i].s]]
\* intent-level (loose) actions: the post-state is the logged one; the action states only what the property demands
TAppend == /\ Ev.op = "append" /\ items' = Logged
           /\ Origs(items') = Origs(items) \o <<Ev.n>>
           /\ Numbered(items', Useful(Ev.n)) /\ Distinct(items')
TDel == /\ Ev.op = "delidx" /\ items' = Logged /\ Ev.i + 1 \in 1..Len(items)
        /\ Origs(items') = Origs(RemoveAt(items, Ev.i + 1))
        /\ Distinct(items')          \* session names after deletion: any distinct assignment is allowed
TNext == /\ l <= Len(Traces[tid]) /\ l' = l + 1 /\ UNCHANGED tid /\ (TAppend \/ TDel)
TSpec == TInit /\ [][TNext]_tvars
Done == IF l = Len(Traces[tid]) + 1 THEN PrintT(<<"ACCEPT", tid>>) ELSE TRUE
Reach == TLCSet(tid + 100, IF TLCGet(tid+100) < l THEN l ELSE TLCGet(tid+100))
Post == \A t \in 1..Len(Traces) : PrintT(<<"PREFIX", t, TLCGet(t + 100) - 1, Len(Traces[t])>>)
ASSUME \A t \in 1..Len(Traces) : TLCSet(t + 100, 0)
====
