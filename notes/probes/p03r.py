import lasio, logging, numpy as np, io, random, re
from lasio import HeaderItem, CurveItem
from decimal import Decimal
logging.disable(logging.CRITICAL)
random.seed(5)
NUMRE=re.compile(r"^[+-]?(\d+([.,]\d*)?|[.,]\d+)([eE][+-]?\d+)?$")
mn_pool=["A","AB","LONGMNEM","a1","X Y","Dup","Dup","é","M-1","",]
unit_pool=["","m","ft","gAPI","m.s","us/ft","hh:mm","%","longunitlongunitlong","Ω","1/m"]
val_pool=["","abc","my value","12","-7.5","1e3","007","he said \"hi\"","[x]","(y)","a.b","2020-01-01","x"*40,"#12","100 %", "é ü"]
desc_pool=["","descr","a longer description here","[br] (pa)","d.e.f","'q'","1 first","x"*50]
def ok_unit(u): return not re.fullmatch(r"\d+",u)
def mk():
    las=lasio.LASFile()
    las.append_curve("DEPT",np.array([1.,2.,3.]),unit="m",descr="depth")
    las.append_curve("GR",np.array([1.,2.,3.]),unit="gAPI",descr="gamma",value=random.choice(["","45 310 01 00","7"]))
    for sec in (las.well,las.params):
        for k in range(random.randint(0,4)):
            m=random.choice(mn_pool); u=random.choice(unit_pool); v=random.choice(val_pool); d=random.choice(desc_pool)
            if m=="" and ("." in u+v+d): continue
            if random.random()<0.3: v=random.choice([5,2.5,0,0.0,-3,1e-7,123456789])
            sec.append(HeaderItem(m,u,v,d))
    return las
def canon(l): return {k:[(i.original_mnemonic,i.unit,i.value,i.descr) for i in v] for k,v in l.sections.items() if not isinstance(v,str)}
def veq(a,b,unit):
    if isinstance(a,str) and a=="" and unit: return b==0
    if isinstance(a,(int,float,np.number)): 
        return isinstance(b,(int,float,np.number)) and float(a)==float(b)
    a=a.strip()
    if NUMRE.match(a): return isinstance(b,(int,float,np.number)) and float(a.replace(",","."))==float(b)
    return a==b
bad={}
for trial in range(3000):
    las=mk(); ver=random.choice([1.2,2]); case=random.choice(["preserve","upper","lower"])
    before=canon(las)
    s=io.StringIO()
    try: las.write(s,version=ver)
    except Exception as e: bad.setdefault(("WRITE",type(e).__name__,str(e)[:50]),[]).append(trial); continue
    try: l2=lasio.read(s.getvalue(),mnemonic_case=case)
    except Exception as e: bad.setdefault(("READ",type(e).__name__,str(e)[:50]),[]).append(trial); continue
    after=canon(l2)
    f={"preserve":lambda x:x,"upper":str.upper,"lower":str.lower}[case]
    for sec in ("Well","Parameter","Curves"):
        b=before[sec]; a=after[sec]
        if len(a)!=len(b): bad.setdefault((sec,"LEN"),[]).append((trial,ver)); continue
        for x,y in zip(b,a):
            if x[0].upper() in ("STRT","STOP","STEP"): continue
            if sec=="Curves":
                okv = str(x[2])==str(y[2])
            else: okv=veq(x[2],y[2],x[1])
            if not (f(x[0])==y[0] and x[1]==y[1] and okv and x[3]==y[3]):
                key=(sec,ver,case if f(x[0])!=y[0] else "-", "m" if f(x[0])!=y[0] else "", "u" if x[1]!=y[1] else "", "v" if not okv else "", "d" if x[3]!=y[3] else "")
                bad.setdefault(key,[]).append((x,y))
for k,v in sorted(bad.items(),key=str): print(k,len(v),v[0])
