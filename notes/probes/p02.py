import lasio, numpy as np, io, logging, itertools
logging.disable(logging.CRITICAL)
HDR="~V\nVERS. 2.0:\nWRAP. NO:\n~W\nNULL. -999.25:\n~C\n"
def build(nc, rows, tail="", pre="", post_sections="", nl="\n", final_nl=True, a_pos="last"):
    curves="".join("C%d.u :\n"%j for j in range(nc))
    data="".join(r+"\n" for r in rows)
    t=HDR+curves
    if a_pos=="last":
        t+= "~A\n"+data
    else:
        t+= "~A\n"+data+post_sections
    if not final_nl: t=t.rstrip("\n")
    return t.replace("\n",nl)
def cmp(t,label):
    res={}
    for e in ("numpy","normal"):
        try:
            l=lasio.read(t,engine=e); res[e]=("ok",l.data.shape, l.data.tolist())
        except Exception as ex:
            res[e]=("exc",type(ex).__name__,str(ex)[:80])
    same = res["numpy"]==res["normal"] or (res["numpy"][0]=="ok" and res["normal"][0]=="ok" and res["numpy"][1]==res["normal"][1] and np.array_equal(np.array(res["numpy"][2]),np.array(res["normal"][2]),equal_nan=True))
    if not same: print("DIFF",label,res["numpy"][:2],res["normal"][:2])
    else: print("same",label,res["numpy"][:2])
for nc,nr in itertools.product((1,2,3),(1,2,3)):
    rows=[" ".join("%d.%d"%(i+1,j) for j in range(nc)) for i in range(nr)]
    cmp(build(nc,rows),"plain %dx%d"%(nr,nc))
    cmp(build(nc,rows,final_nl=False),"nofinalnl %dx%d"%(nr,nc))
    cmp(build(nc,rows+[""]),"trailing blank %dx%d"%(nr,nc))
    cmp(build(nc,rows+["# c"]),"trailing comment %dx%d"%(nr,nc))
    cmp(build(nc,[rows[0],""]+rows[1:]),"inner blank %dx%d"%(nr,nc))
    cmp(build(nc,["#c"]+rows),"lead comment %dx%d"%(nr,nc))
    cmp(build(nc,rows,a_pos="mid",post_sections="~P\nX. 1:\n"),"A then P %dx%d"%(nr,nc))
    cmp(build(nc,rows+[""],a_pos="mid",post_sections="~P\nX. 1:\n"),"A blank then P %dx%d"%(nr,nc))
    cmp(build(nc,rows+["#x"],a_pos="mid",post_sections="~O\nfoo\n"),"A comment then O %dx%d"%(nr,nc))
    cmp(build(nc,rows,nl="\r\n"),"crlf %dx%d"%(nr,nc))
