import itertools, random, logging, warnings, numpy as np, lasio
warnings.filterwarnings("ignore"); logging.disable(logging.CRITICAL)
random.seed(6)
# abstract text: list of sections; each section = (letter, lower?, style, body lines)
def title(letter,lower,style):
    words={"V":"ersion","W":"ell","C":"urve","P":"arameter","O":"ther","A":"SCII","X":"tra","S":"pecial"}
    t="~"+(letter.lower() if lower else letter)
    if style>=1: t+=(words[letter].lower() if lower else words[letter].upper() if style==2 else words[letter])
    if style==2: t+=" INFORMATION BLOCK"
    return t
def build(order, sizes, lower, style, deco, nrows=2, ncols=2, nl="\n"):
    lines=[]; exp={}
    def decos(tag):
        return deco.get(tag,[])
    lines.append(title("V",lower,style)); lines+=["VERS. 2.0: v","WRAP. NO: w"]+decos("V")
    exp["Version"]=[("VERS",2.0),("WRAP","NO")]
    for sec in order:
        if sec=="A":
            lines.append(title("A",lower,style))
            rows=[]
            for i in range(nrows):
                lines+=decos("A%d"%i)
                row=[(i+1)*100+j+0.25 for j in range(ncols)]; rows.append(row)
                lines.append(" ".join("%.2f"%x for x in row))
            lines+=decos("Aend")
            exp["data"]=rows
        elif sec=="O":
            lines.append(title("O",lower,style)); body=["other line %d"%k for k in range(sizes.get("O",1))]; lines+=body; exp["Other"]="\n".join(body)
        else:
            lines.append(title(sec,lower,style))
            if sec=="W":
                items=[("NULL",-999.25)]+[("W%d"%k,"w%d"%k) for k in range(sizes.get("W",1))]
                lines.append("NULL. -999.25: null")
                for k in range(sizes.get("W",1)): lines.append("W%d. w%d: d"%(k,k))
                exp["Well"]=items
            elif sec=="C":
                lines+=["C%d.m : c"%k for k in range(ncols)]; exp["Curves"]=[("C%d"%k,"") for k in range(ncols)]
            elif sec=="P":
                its=[("P%d"%k,k+1) for k in range(sizes.get("P",1))]; lines+=["P%d. %d: d"%(k,k+1) for k in range(sizes.get("P",1))]; exp["Parameter"]=its
            else:
                its=[("%s%d"%(sec,k),k+5) for k in range(sizes.get(sec,1))]; lines+=["%s%d. %d: d"%(sec,k,k+5) for k in range(sizes.get(sec,1))]
                exp[title(sec,lower,style)[1:]]=its
            lines+=decos(sec)
    return nl.join(lines)+nl, exp
def observe(txt,engine):
    l=lasio.read(txt,engine=engine,mnemonic_case="preserve")
    obs={}
    for k,v in l.sections.items():
        if isinstance(v,str): obs[k]=v
        else: obs[k]=[(i.original_mnemonic,(float(i.value) if isinstance(i.value,(int,float,np.number)) else i.value)) for i in v]
    try: obs["data"]=l.data.tolist()
    except Exception: obs["data"]=None
    return obs
def compare(exp,obs):
    d=[]
    for k,v in exp.items():
        o=obs.get(k)
        if k=="data":
            if o is None or np.array(o,dtype=object).shape!=np.array(v).shape or not np.allclose(np.array(o,dtype=float),np.array(v)): d.append(("data",str(o)[:60]))
        elif isinstance(v,str):
            if o!=v: d.append((k,"text",o))
        else:
            if o is None or [(a,(float(b) if isinstance(b,(int,float)) else b)) for a,b in v]!=o: d.append((k,"items",str(o)[:80]))
    for k in obs:
        if k not in exp and k not in("Well","Curves","Parameter","Other","Version","data"): d.append(("extra section",k))
    return d
res={}
cnt=0
secsets=[["W","C","P","O","X"],["W","C"],["C"],["W","C","X","S"],["W","C","O"]]
for secs in secsets:
  perms=list(itertools.permutations(secs))
  random.shuffle(perms)
  for perm in perms[:24]:
    for apos in range(len(perm)+1):
        order=list(perm); order.insert(apos,"A")
        for lower in (False,True):
          for style in (0,1,2):
            for deco_kind in ("none","blank_end","comment_end","blank_in","hdr_blank","hdr_comment","empty_sections"):
                deco={}; sizes={}
                if deco_kind=="blank_end": deco={"Aend":[""]}
                if deco_kind=="comment_end": deco={"Aend":["# c"]}
                if deco_kind=="blank_in": deco={"A1":["","#x"]}
                if deco_kind=="hdr_blank": deco={s:[""] for s in "VWPXS"}
                if deco_kind=="hdr_comment": deco={s:["# c"] for s in "VWPXS"}
                if deco_kind=="empty_sections": sizes={"W":0,"P":0,"X":0,"S":0,"O":0}
                if random.random()>0.15: continue
                txt,exp=build(order,sizes,lower,style,deco)
                for eng in ("numpy","normal"):
                    cnt+=1
                    try: obs=observe(txt,eng); d=compare(exp,obs)
                    except Exception as e: d=[("EXC",type(e).__name__)]
                    if d:
                        key=(("lower" if lower else "upper"),deco_kind,"Alast" if apos==len(perm) else "Ainner",eng,str(d[0][:2]))
                        res.setdefault(key,[]).append((order,style))
print(cnt)
for k,v in sorted(res.items(),key=str): print(k,len(v),v[0])
