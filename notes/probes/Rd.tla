---- MODULE Rd ----
EXTENDS Naturals, Integers, Sequences, FiniteSets, TLC, SequencesExt
\* A text is a fixed header (title lines only matter) followed by generated lines.
\* Line kinds: "T" title (other section), "A" data title, "D" data row (c tokens), "B" blank, "K" comment, "I" header item
CONSTANTS MaxLines, C
VARIABLES text, done
Kinds == {"D","B","K"}
\* text = prefix <<"T","I","A">> then data-section lines, then optionally <<"T","I">> (A not last)
Init == text = <<"T","I","A">> /\ done = FALSE
Grow == /\ ~done /\ Len(text) < 3 + MaxLines
        /\ \E k \in Kinds : text' = Append(text, k)
        /\ done' = FALSE
FinishLast == ~done /\ done' = TRUE /\ text' = text
FinishInner == ~done /\ done' = TRUE /\ text' = text \o <<"T","I">>
Next == Grow \/ FinishLast \/ FinishInner
Spec == Init /\ [][Next]_<<text,done>>
\* ---------- intent ----------
N == Len(text)
APos == 3                        \* 1-based index of the ~A title
NextTitle == LET s == {i \in APos+1..N : text[i] = "T"} IN IF s = {} THEN N+1 ELSE CHOOSE i \in s : \A j \in s : i <= j
IntentRows == Cardinality({i \in APos+1..NextTitle-1 : text[i] = "D"})
\* ---------- algorithm (0-based line numbers like the code) ----------
first == APos - 1
last == IF NextTitle = N+1 THEN N ELSE (NextTitle - 1) - 1      \* inclusive index of last line for inner, count for final
kind0(i) == text[i+1]                                            \* 0-based access
\* normal engine: iterate lines first+1 .. ; skip B/K ; stop after a kept line whose line_no = last ; EOF stops
RECURSIVE NormalScan(_, _)
NormalScan(i, acc) == IF i > N-1 THEN acc
                      ELSE IF kind0(i) \in {"B","K"} THEN NormalScan(i+1, acc)
                      ELSE LET acc2 == Append(acc, kind0(i)) IN IF i = last THEN acc2 ELSE NormalScan(i+1, acc2)
NormalToks == NormalScan(first+1, <<>>)
NormalOK == \A j \in 1..Len(NormalToks) : NormalToks[j] = "D"       \* garbage if it swallowed T/I lines
NormalRows == Len(NormalToks)
\* numpy engine: skip first+1 lines, read up to max_rows non-empty rows; a non-D non-skipped line -> exception -> fallback
maxrows == last - (first + 1)
RECURSIVE NumpyScan(_, _)
NumpyScan(i, acc) == IF i > N-1 \/ Len(acc) = maxrows THEN acc
                     ELSE IF kind0(i) \in {"B","K"} THEN NumpyScan(i+1, acc)
                     ELSE NumpyScan(i+1, Append(acc, kind0(i)))
NumpyToks == IF maxrows <= 0 THEN <<>> ELSE NumpyScan(first+1, <<>>)
NumpyRaises == \E j \in 1..Len(NumpyToks) : NumpyToks[j] # "D"
NumpyRows == Len(NumpyToks)
\* shape after the 1-D / 0-D disambiguation: <<rows, cols>> or "ERR"
NumpyShape == IF NumpyRows = 0 THEN "EMPTY"
              ELSE IF NumpyRows = 1 /\ C = 1 THEN "ERR0D"
              ELSE IF NumpyRows = 1 THEN (IF maxrows = 1 THEN <<1, C>> ELSE <<C, 1>>)   \* 1-D of length C
              ELSE IF C = 1 THEN (IF maxrows = 1 THEN <<1, NumpyRows>> ELSE <<NumpyRows, 1>>)
              ELSE <<NumpyRows, C>>
Expected == <<IntentRows, C>>
NormalGood == done /\ IntentRows > 0 => NormalOK /\ NormalRows = IntentRows
NumpyGood == done /\ IntentRows > 0 => (NumpyRaises \/ NumpyShape = Expected)   \* raising = fallback to normal
====
