import lasio, logging, numpy as np, io, warnings, builtins, os, gc
warnings.filterwarnings("ignore")
logging.disable(logging.CRITICAL)
opened=[]
_open=builtins.open; _ioopen=io.open
def track(*a,**k):
    f=_open(*a,**k); opened.append(f); return f
builtins.open=track; io.open=track
import lasio.reader
def check(label, fn):
    opened.clear()
    exc=None
    try: fn()
    except BaseException as e: exc=e   # keep alive
    leaks=[f for f in opened if not f.closed]
    print(label, "exc=%s"%type(exc).__name__, "opened=%d leaks=%d"%(len(opened),len(leaks)))
    for f in leaks: f.close()
open("/tmp/probe/nosec.las","w").write("hello\nworld\n")
open("/tmp/probe/badhdr.las","w").write("~V\nVERS. 2.0:\nWRAP. NO:\n~W\njunk\n~C\nD.m:\n~A\n1\n")
open("/tmp/probe/badshape.las","w").write("~V\nVERS. 2.0:\nWRAP. YES:\n~W\nNULL. -1:\n~C\nD.m:\nE.m:\n~A\n1 2 3\n")
check("read ok", lambda: lasio.read("/repo/tests/examples/sample.las"))
check("read nosec", lambda: lasio.read("/tmp/probe/nosec.las"))
check("read badhdr", lambda: lasio.read("/tmp/probe/badhdr.las"))
check("read badshape", lambda: lasio.read("/tmp/probe/badshape.las"))
check("read missing", lambda: lasio.read("/tmp/probe/doesnotexist.las"))
from pathlib import Path
check("read Path nosec", lambda: lasio.read(Path("/tmp/probe/nosec.las")))
check("read strict decode", lambda: lasio.read("/repo/tests/examples/encodings_utf16le.las", encoding="ascii", encoding_errors="strict"))
l=lasio.read("/repo/tests/examples/sample.las")
check("write ok", lambda: l.write("/tmp/probe/out.las"))
check("write bad version", lambda: l.write("/tmp/probe/out.las", version=3))
l2=lasio.read("/repo/tests/examples/data_characters.las")
check("write text fail", lambda: l2.write("/tmp/probe/out.las"))
check("to_csv ok", lambda: l.to_csv("/tmp/probe/out.csv"))
check("to_csv bad kw", lambda: l.to_csv("/tmp/probe/out.csv", delimiter="ab"))
l3=lasio.LASFile()
check("to_csv empty", lambda: l3.to_csv("/tmp/probe/out.csv"))
f=_open("/tmp/probe/o2.las","w"); l.write(f); print("caller file closed?",f.closed); f.close()
