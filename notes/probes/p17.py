import lasio, pickle, copy, io, logging, numpy as np, warnings
warnings.filterwarnings("ignore"); logging.disable(logging.CRITICAL)
def proj(l):
    return ({k:(v if isinstance(v,str) else (getattr(v,"mnemonic_transforms",None),[(i.mnemonic,i.original_mnemonic,i.unit,repr(i.value),i.descr) for i in v])) for k,v in l.sections.items()},
            [(c.data.dtype.str, c.data.tolist()) for c in l.curves], l.index_unit, None if l.index_initial is None else l.index_initial.tolist(), getattr(l,"encoding","NA"))
def wr(l):
    s=io.StringIO(); l.write(s); return s.getvalue()
for f in ["sample.las","mnemonic_duplicate.las","mnemonic_missing_multiple.las","data_characters.las","mnemonic_case.las","2.0/sample_2.0.las"]:
    l=lasio.read("/repo/tests/examples/"+f)
    for how in ["deepcopy"]+list(range(6)):
        try:
            c=copy.deepcopy(l) if how=="deepcopy" else pickle.loads(pickle.dumps(l,protocol=how))
            pa,pc=proj(l),proj(c)
            eq = pa==pc
            try: weq = wr(copy.deepcopy(l) if False else l)==wr(c)
            except Exception as e: weq="wr-exc:"+type(e).__name__
            print(f,how,"proj equal" if eq else "PROJ DIFF", "write equal" if weq is True else weq)
            if not eq:
                for k in pa[0]:
                    if pa[0][k]!=pc[0][k]: print("    ",k, [ (x,y) for x,y in zip(pa[0][k][1],pc[0][k][1]) if x!=y][:2] if not isinstance(pa[0][k],str) else "text", pa[0][k][0] if not isinstance(pa[0][k],str) else "", pc[0][k][0] if not isinstance(pa[0][k],str) else "")
                for i in range(1,5):
                    if pa[i]!=pc[i]: print("     field",i,"differs")
        except Exception as e: print(f,how,"EXC",type(e).__name__,str(e)[:80])
        break_after = False
# independence
l=lasio.read("/repo/tests/examples/sample.las"); c=copy.deepcopy(l); c.curves[0].data[0]=-1; c.well.WELL.value="zz"; print("orig untouched:", l.curves[0].data[0], l.well.WELL.value)
# section & item copies
s=l.well; s2=pickle.loads(pickle.dumps(s)); print(type(s2).__name__, s2.keys()==s.keys(), s2.mnemonic_transforms, s.mnemonic_transforms)
i=l.curves[1]; i2=copy.deepcopy(i); print(type(i2).__name__, i2.mnemonic, np.array_equal(i2.data,i.data))
