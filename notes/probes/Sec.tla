---- MODULE Sec ----
EXTENDS Naturals, Sequences, FiniteSets, TLC, Json, SequencesExt
CONSTANTS Names, MaxLen, MaxOps
VARIABLES items, nops, last
vars == <<items, nops, last>>
\* an item is [o |-> original name, s |-> session name]
Useful(o) == IF o = "" THEN "UNKNOWN" ELSE o
Renumber(seq, u) ==
  LET locs == {i \in 1..Len(seq) : Useful(seq[i].o) = u}
      rank(i) == Cardinality({j \in locs : j <= i})
  IN IF Cardinality(locs) > 1
     THEN [i \in 1..Len(seq) |-> IF i \in locs THEN [seq[i] EXCEPT !.s = u \o ":" \o ToString(rank(i))] ELSE seq[i]]
     ELSE seq
Init == items = <<>> /\ nops = 0 /\ last = [op |-> "init"]
DoAppend(n) == /\ Len(items) < MaxLen
             /\ items' = Renumber(Append(items, [o |-> n, s |-> Useful(n)]), Useful(n))
             /\ last' = [op |-> "append", n |-> n]
DoInsert(i, n) == /\ Len(items) < MaxLen /\ i \in 0..Len(items)
             /\ items' = Renumber(InsertAt(items, i+1, [o |-> n, s |-> Useful(n)]), Useful(n))
             /\ last' = [op |-> "insert", n |-> n, i |-> i]
DelIdx(i) == /\ i \in 1..Len(items)
             /\ items' = RemoveAt(items, i)
             /\ last' = [op |-> "delidx", i |-> i-1]
Next == /\ nops < MaxOps /\ nops' = nops + 1
        /\ \/ \E n \in Names : DoAppend(n)
           \/ \E n \in Names, i \in 0..MaxLen : DoInsert(i, n)
           \/ \E i \in 1..MaxLen : DelIdx(i)
Spec == Init /\ [][Next]_vars
Distinct == \A i, j \in 1..Len(items) : i # j => items[i].s # items[j].s
Dump == PrintT(ToJson([items |-> items, last |-> last, n |-> nops]))
====
