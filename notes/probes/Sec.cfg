SPECIFICATION Spec
CONSTANTS
  Names = {"A", "B", "", "C"}
  MaxLen = 3
  MaxOps = 4
INVARIANT Distinct
CHECK_DEADLOCK FALSE
