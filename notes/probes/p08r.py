import itertools, re, logging, numpy as np
from decimal import Decimal
from lasio.reader import SectionParser
logging.disable(logging.CRITICAL)
sp=SectionParser("~Well",version=2.0)
alpha="019+-.,eE_ ax/:inf"
LIT=re.compile(r"^[+-]?(\d+([.,]\d*)?|[.,]\d+)([eE][+-]?\d+)?$")
INT=re.compile(r"^[+-]?\d+$")
bad={}
n=0
for L in range(0,5):
    for t in itertools.product(alpha,repeat=L):
        s="".join(t); n+=1
        st=s.strip()
        if st!=s: continue   # parser strips before num()
        got=sp.num(s)
        if LIT.match(s):
            if INT.match(s) and -2**63<=int(s)<2**63: exp=("int",int(s))
            else:
                f=float(s.replace(",","."))
                exp=("float",f) if np.isfinite(f) else ("str",s)
        else: exp=("str",s)
        if isinstance(got,str): g=("str",got)
        elif isinstance(got,(np.integer,int)): g=("int",int(got))
        else: g=("float",float(got))
        if g!=exp: bad.setdefault((exp[0],g[0]),[]).append((s,got))
print(n)
for k,v in bad.items(): print(k,len(v),v[:12])
