import lasio, logging, numpy as np, glob, io, os, warnings, random, itertools
warnings.filterwarnings("ignore")
logging.disable(logging.CRITICAL)
random.seed(2)
def canon(l):
    d={}
    for k,v in l.sections.items():
        if isinstance(v,str): d[k]=v
        else: d[k]=[(i.original_mnemonic,i.unit,str(i.value) if not isinstance(i.value,(int,float,np.number)) else float(i.value),i.descr) for i in v if not (k=="Version" and i.original_mnemonic.upper() in("VERS","WRAP"))]
    try: dat=l.data
    except Exception: dat=None
    return d,dat
def same(a,b):
    if a[0]!=b[0]:
        for k in a[0]:
            if a[0][k]!=b[0].get(k):
                if isinstance(a[0][k],list) and len(a[0][k])==len(b[0][k]):
                    return [(k,x,y) for x,y in zip(a[0][k],b[0][k]) if x!=y and not (isinstance(x[2],float) and np.isnan(x[2]) and isinstance(y[2],float) and np.isnan(y[2]))][:2] or None
                return [(k,"struct")]
    if (a[1] is None)!=(b[1] is None): return ["datanone"]
    if a[1] is not None:
        if a[1].shape!=b[1].shape: return [("shape",a[1].shape,b[1].shape)]
        try:
            if not np.array_equal(a[1].astype(float),b[1].astype(float),equal_nan=True): return ["datavals"]
        except Exception: pass
    return None
files=[f for f in sorted(glob.glob("/repo/tests/examples/**/*.las",recursive=True)) if "/3.0/" not in f]
cfgs=[dict(version=1.2),dict(version=2),dict(version=2,wrap=True),dict(version=1.2,wrap=False,len_numeric_field=16),dict(version=2,spacer="  ",lhs_spacer=""),dict(version=2,data_width=40,wrap=True),dict(version=1.2,mnemonics_header=True),dict(version=2,data_section_header="~A")]
res={}
for f in files:
    outs=[]
    for c in cfgs:
        try:
            l=lasio.read(f); s=io.StringIO(); l.write(s,**c); outs.append((c,canon(lasio.read(s.getvalue()))))
        except Exception as e: outs.append((c,("EXC",type(e).__name__)))
    base=[o for o in outs if o[1][0]!="EXC"]
    for (c1,r1),(c2,r2) in itertools.combinations(outs,2):
        if r1[0]=="EXC" or r2[0]=="EXC":
            if (r1[0]=="EXC")!=(r2[0]=="EXC"): res.setdefault((os.path.basename(f),"one-sided EXC",str(r1 if r1[0]=="EXC" else r2)),[]).append((c1,c2))
            continue
        d=same(r1,r2)
        if d: res.setdefault((os.path.basename(f),str(d)[:150]),[]).append((c1,c2))
for k,v in res.items(): print(k,len(v),v[0])
