SPECIFICATION Spec
CONSTANTS MaxLines = 4  C = 2
INVARIANT NumpyGood
CHECK_DEADLOCK FALSE
