import lasio, logging, numpy as np, io, random, warnings, glob, copy
from lasio import HeaderItem
warnings.filterwarnings("ignore"); logging.disable(logging.CRITICAL)
random.seed(9)
def snap(l):
    secs={}
    for k,v in l.sections.items():
        secs[k]= v if isinstance(v,str) else [(i.mnemonic,i.original_mnemonic,i.unit,repr(i.value),type(i.value).__name__,i.descr) for i in v]
    return secs,[(c.data.dtype.str,c.data.tobytes() if c.data.dtype!=object else repr(c.data.tolist())) for c in l.curves], l.index_unit
ALLOWED={"STRT","STOP","STEP"}
def diffs(a,b,wrap_given):
    out=[]
    for k in a[0]:
        x,y=a[0][k],b[0].get(k)
        if isinstance(x,str):
            if x!=y: out.append((k,"text"))
            continue
        if len(x)!=len(y): out.append((k,"len")); continue
        for idx,(i,j) in enumerate(zip(x,y)):
            if i==j: continue
            if k=="Well" and i[1].upper() in ALLOWED and i[:2]==j[:2] and i[5]==j[5]: continue  # value/unit may change
            if k=="Curves" and idx==0 and (i[0],i[1],i[3],i[4],i[5])==(j[0],j[1],j[3],j[4],j[5]): continue  # unit of first curve
            if k=="Version" and wrap_given and i[1].upper()=="WRAP": continue
            if k in("Well","Parameter") and i[:3]==j[:3] and i[5]==j[5] and i[3] in("''","None") : continue # normalisation
            out.append((k,i,j))
    if a[1]!=b[1]: out.append("DATA")
    if a[2]!=b[2]: out.append(("index_unit",a[2],b[2]))
    return out
files=[f for f in sorted(glob.glob("/repo/tests/examples/**/*.las",recursive=True)) if "/3.0/" not in f]
issues={}
for f in files:
    for variant in range(4):
        try: l=lasio.read(f)
        except Exception: break
        if len(l.curves)==0 or len(l.curves[0].data)==0 or l.curves[0].data.dtype.kind!="f": break
        if variant==1: l.curves[0].data=l.curves[0].data+0.5
        if variant==2 and len(l.curves)>1: l.curves[1].data=l.curves[1].data*2
        if variant==3: l.well.append(HeaderItem("ZZ","m","","zz")); l.params.append(HeaderItem("YY","",None,"yy"))
        kw=random.choice([{}, {"version":1.2},{"version":2},{"wrap":True},{"wrap":False},{"fmt":"%.2f"},{"mnemonics_header":True}])
        a=snap(l); s1=io.StringIO()
        try: l.write(s1,**kw)
        except Exception as e: continue
        b=snap(l); d=diffs(a,b,"wrap" in kw)
        if d: issues.setdefault(("frame",str(d[0])[:160]),[]).append((f.split("/")[-1],variant,kw))
        s2=io.StringIO(); l.write(s2,**kw); c=snap(l)
        if s1.getvalue()!=s2.getvalue(): issues.setdefault(("nondeterministic text",),[]).append((f.split("/")[-1],variant,kw))
        if b!=c: issues.setdefault(("second write changes memory",),[]).append((f.split("/")[-1],variant,kw))
        # truthfulness
        try:
            r=lasio.read(s1.getvalue())
            changed = variant==1 or (l.index_initial is None) 
            if changed:
                fmt=kw.get("fmt","%.5f")
                if abs(float(r.well.STRT.value)-r.index[0])>1e-4 or abs(float(r.well.STOP.value)-r.index[-1])>1e-4: issues.setdefault(("untruthful STRT/STOP",),[]).append((f.split("/")[-1],variant,kw,r.well.STRT.value,r.index[0]))
                if len(r.index)>1 and abs(float(r.well.STEP.value)-(r.index[1]-r.index[0]))>1e-4: issues.setdefault(("untruthful STEP",),[]).append((f.split("/")[-1],variant,kw,r.well.STEP.value,r.index[1]-r.index[0]))
                if r.well.STRT.unit!=r.curves[0].unit: issues.setdefault(("unit mismatch",),[]).append((f.split("/")[-1],variant,kw))
        except Exception as e: pass
for k,v in issues.items(): print(k,len(v),v[:2])
