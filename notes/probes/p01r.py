import lasio, numpy as np, io, logging, random, warnings, math
warnings.filterwarnings("ignore"); logging.disable(logging.CRITICAL)
random.seed(12); rng=np.random.default_rng(12)
def rnd_float():
    k=random.random()
    if k<0.15: return float(random.choice([0.0,-0.0,1.0,-1.0,123456.789,-999.25,5e-324,1e-300,1e300,-1e300,1e15,1e16,0.1,2.5e-7]))
    if k<0.5: return float(rng.normal()*10**random.randint(-8,8))
    return float(rng.uniform(-1000,1000))
def ulp10(fmt,x):
    s=fmt%x
    s2=s.lower()
    mant,exp=(s2.split("e")+["0"])[:2]
    e=int(exp)
    d=len(mant.split(".")[1]) if "." in mant else 0
    return 10.0**(e-d)
res={}
N=0
for trial in range(4000):
    nc=random.choice([1,2,3,5,7,8,14,21,28,40,random.randint(1,40)]); nr=random.choice([1,2,3,5,22,30])
    las=lasio.LASFile()
    cols=[]
    for j in range(nc):
        if j==0: d=np.cumsum(np.abs(rng.normal(size=nr))+0.01)+random.choice([0,100,-50,1e5])
        else:
            d=np.array([rnd_float() for _ in range(nr)])
            for i in range(nr):
                if random.random()<0.15: d[i]=np.nan
        cols.append(d); las.append_curve("C%d"%j,d,unit="u")
    fmt=random.choice(["%.5f","%.2f","%.8f","%.3e","%g","%.10g","%.0f"])
    kw=dict(version=random.choice([1.2,2]),wrap=random.choice([True,False]),fmt=fmt)
    if random.random()<0.3: kw["column_fmt"]={0:"%.3f"}
    if random.random()<0.5: kw["len_numeric_field"]=random.choice([None,-1,30,330])
    if random.random()<0.5: kw["spacer"]=random.choice([" ","  ","\t"])
    if random.random()<0.5: kw["lhs_spacer"]=random.choice([""," ","   "])
    if random.random()<0.5: kw["data_width"]=random.choice([79,40,132,1000,12])
    if random.random()<0.3: kw["mnemonics_header"]=True
    if random.random()<0.3: kw["data_section_header"]=random.choice(["~A","~ASCII","~Ascii log data"])
    # domain: explicit field width must exceed every formatted value
    fmts=[(kw.get("column_fmt",{}).get(j,fmt)) for j in range(nc)]
    maxw=max(len(fmts[j]%v) for j in range(nc) for v in cols[j] if not np.isnan(v))
    if kw.get("len_numeric_field") not in (None,-1) and kw["len_numeric_field"]<=maxw: continue
    if "%.0f"==fmt and kw.get("len_numeric_field")==-1 and kw.get("spacer","x")=="": continue
    for eng in ("numpy","normal"):
        N+=1
        s=io.StringIO()
        try: las.write(s,**kw)
        except Exception as e: res.setdefault(("WRITE",type(e).__name__,str(e)[:40]),[]).append(kw); break
        try: r=lasio.read(s.getvalue(),engine=eng)
        except Exception as e: res.setdefault(("READ",eng,type(e).__name__,str(e)[:50]),[]).append((nc,nr,kw)); continue
        if len(r.curves)!=nc or [c.original_mnemonic for c in r.curves]!=["C%d"%j for j in range(nc)] or any(len(c.data)!=nr for c in r.curves):
            res.setdefault(("SHAPE",eng,kw["wrap"]),[]).append((nc,nr,kw,len(r.curves),[len(c.data) for c in r.curves][:3])); continue
        for j in range(nc):
            for i in range(nr):
                x=cols[j][i]; y=r.curves[j].data[i]
                if np.isnan(x):
                    if j==0: continue
                    if not (isinstance(y,float) and np.isnan(y)): res.setdefault(("NAN lost",eng),[]).append((x,y,kw)); 
                    continue
                if isinstance(y,float) and np.isnan(y):
                    res.setdefault(("became NaN",eng, j==0),[]).append((x,fmts[j],fmts[j]%x,kw)); continue
                tol=0.5*ulp10(fmts[j],x)*(1+1e-9)+abs(x)*2.3e-16
                if abs(float(y)-x)>tol: res.setdefault(("VALUE",eng,fmts[j]),[]).append((x,y,fmts[j]%x))
print(N)
for k,v in sorted(res.items(),key=str): print(k,len(v),str(v[0])[:260])
