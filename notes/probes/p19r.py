import lasio, logging, numpy as np, random, string, warnings
warnings.filterwarnings("ignore"); logging.disable(logging.CRITICAL)
random.seed(11)
base="~V\nVERS. 2.0:\nWRAP. NO:\n{jv}~W\nSTRT.m 1:\nSTOP.m 3:\nSTEP.m 2:\nNULL. -999.25:\nWELL. w:\n{jw}~P\nPA.m 1: d\n{jp}~X\nXA. 5:\n{jx}~C\nD.m:\nE.m:\n~A\n1 2\n3 4\n"
def canon(l): return {k:(v if isinstance(v,str) else [(i.original_mnemonic,i.unit,str(i.value),i.descr) for i in v]) for k,v in l.sections.items()}
ref=lasio.read(base.format(jv="",jw="",jp="",jx="")); rc=canon(ref)
alph=string.printable[:95]  # no control chars beyond space
punct=".:.::..  \t-\"'[]()#%"
res={}
for t in range(30000):
    n=random.choice([1,2,3,5,10,40])
    src=random.choice([alph,punct,punct+"ab1"])
    j="".join(random.choice(src) for _ in range(n))
    if j.strip().startswith("~") or "\n" in j or "\r" in j or "\x0b" in j or "\x0c" in j: continue
    site=random.choice(["jv","jw","jp","jx"])
    kw=dict(jv="",jw="",jp="",jx=""); kw[site]=j+"\n"
    txt=base.format(**kw)
    # steering filter (approx): name before first '.' or ':' 
    import re
    nm=re.split(r"[.:]",j.strip().lstrip("."),1)[0].strip().upper()
    if nm in("VERS","WRAP","DLM","NULL"): continue
    try:
        l=lasio.read(txt,ignore_header_errors=True)
        c=canon(l)
        for sec in rc:
            if isinstance(rc[sec],str): 
                if c[sec]!=rc[sec]: res.setdefault(("other changed",site),[]).append(j)
                continue
            g=[x for x in c.get(sec,[]) if x in rc[sec]]
            if g!=rc[sec]: res.setdefault(("genuine changed",site,sec),[]).append((j,c.get(sec)))
        if not np.array_equal(l.data,ref.data): res.setdefault(("data changed",site),[]).append(j)
    except Exception as e:
        res.setdefault(("EXC flag",site,type(e).__name__),[]).append(j)
    try: lasio.read(txt)
    except lasio.exceptions.LASHeaderError as e:
        if j.strip() not in str(e): res.setdefault(("msg lacks line",site),[]).append((j,str(e)))
    except Exception as e: res.setdefault(("EXC noflag",site,type(e).__name__),[]).append(j)
for k,v in res.items(): print(k,len(v),[repr(x)[:80] for x in v[:3]])
