import random, lasio, logging
from lasio import SectionItems, HeaderItem
logging.disable(logging.CRITICAL)
random.seed(3)
names=["A","a","B","","A:1","0","1"]
def keyeq(tr,a,b):
    if tr:
        try: return a.upper()==b.upper()
        except AttributeError: return False
    return a==b
issues=set()
for trial in range(20000):
    tr=random.random()<0.5
    s=SectionItems(); s.mnemonic_transforms=tr
    for step in range(random.randint(0,6)):
        op=random.choice(["append","insert","delk","deli","setv","get","getadd","replace"])
        try:
            if op=="append": s.append(HeaderItem(random.choice(names),value=step))
            elif op=="insert": s.insert(random.randint(-1,len(s)+1),HeaderItem(random.choice(names),value=step))
            elif op=="delk":
                k=random.choice(names+[x.mnemonic for x in s]); before=list(s)
                hit=[i for i,x in enumerate(before) if keyeq(tr,x.mnemonic,k)]
                try:
                    del s[k]
                    if not hit: issues.add(("del succeeded on missing",k,tr))
                    else:
                        exp=before[:hit[0]]+before[hit[0]+1:]
                        if [id(x) for x in s]!=[id(x) for x in exp]: issues.add(("del wrong item",k))
                except KeyError:
                    if hit: issues.add(("del KeyError on present",k))
            elif op=="deli" and len(s):
                i=random.randint(-len(s),len(s)-1); before=list(s); del s[i]
                exp=before[:]; del exp[i]
                if [id(x) for x in s]!=[id(x) for x in exp]: issues.add(("deli wrong",i, tuple(x.mnemonic for x in before)))
            elif op=="setv":
                k=random.choice(names+[x.mnemonic for x in s]); before=[(id(x),x.value) for x in s]
                hit=[i for i,x in enumerate(s) if keyeq(tr,x.mnemonic,k)]
                try:
                    s[k]="NEW%d"%step
                    if not hit: issues.add(("setv succeeded on missing",k))
                    else:
                        for i,(x,(idx,v)) in enumerate(zip(s,before)):
                            if i==hit[0]:
                                if x.value!="NEW%d"%step: issues.add(("setv not set",k))
                            elif x.value!=v: issues.add(("setv changed other",k))
                except KeyError:
                    if hit: issues.add(("setv KeyError on present",k))
            elif op in("get","getadd"):
                k=random.choice(names+[x.mnemonic for x in s]); n=len(s); ids=[id(x) for x in s]
                hit=[i for i,x in enumerate(s) if keyeq(tr,x.mnemonic,k)]
                r=s.get(k,add=(op=="getadd"))
                if hit:
                    if r is not s[hit[0]] or len(s)!=n: issues.add(("get present wrong",k))
                else:
                    if op=="get" and ([id(x) for x in s]!=ids): issues.add(("get mutated",k))
                    if op=="getadd" and (len(s)!=n+1 or s[-1] is not r): issues.add(("getadd wrong",k))
            elif op=="replace" and len(s):
                pass
        except Exception as e:
            issues.add(("EXC",op,type(e).__name__,str(e)[:40]))
        # invariants
        ks=s.keys()
        for k in set(names+ks+[x.lower() for x in ks]+[x.upper() for x in ks]):
            hit=[i for i,x in enumerate(s) if keyeq(tr,x.mnemonic,k)]
            c = k in s
            try: g=s[k]; ok=True
            except KeyError: ok=False
            if c!=ok: issues.add(("in/getitem disagree",k,tr))
            if ok and (not hit or g is not s[hit[0]]): issues.add(("getitem not first",k,tr,tuple(ks)))
            if c!=bool(hit): issues.add(("contains wrong",k,tr,tuple(ks)))
            if ok:
                try:
                    a=getattr(s,k) if k.isidentifier() else g
                    if a is not g: issues.add(("getattr differs",k))
                except Exception as e: issues.add(("getattr EXC",k,type(e).__name__))
        if len(set(ks))!=len(ks): issues.add(("dup session",tuple(sorted(ks))[:4]))
for i in sorted(issues,key=str)[:40]: print(i)
print(len(issues))
