import lasio, logging
logging.disable(logging.CRITICAL)
for body in ["1 2\n3 4\n","1 2\n\n3 4\n","1 2\n3 4\n\n","#c\n1 2\n3 4\n"]:
    for hdr in ["~V\nVERS. 2.0:\nWRAP. NO:\n~A\n","~A\n","~V\nVERS. 2.0:\nWRAP. NO:\n~C\nA.m:\nB.m:\n~A\n"]:
        for e in ("numpy","normal"):
            try:
                l=lasio.read(hdr+body,engine=e); print(repr(hdr[-12:]),repr(body),e,len(l.curves),[c.data.tolist() for c in l.curves])
            except Exception as ex: print(repr(hdr[-12:]),repr(body),e,"EXC",type(ex).__name__,str(ex)[:60])
