import itertools, random, re, sys, logging
import lasio
from lasio.reader import read_header_line
logging.disable(logging.CRITICAL)
random.seed(4)
WS=" \t"
def intent_parse(line, sec):
    """intent grammar as planned for HeaderLine.tla (conformant lines with a period before the first colon)"""
    s=line.strip()
    # missing-period form
    c1=s.find(":")
    if c1!=-1 and "." not in s[:c1]:
        return (s[:c1].strip(),"",s[c1+1:].strip(),"")
    d=s.find(".")
    name=s[:d].strip(); rest=s[d+1:]
    # unit: non-ws run directly after the dot, numeric + single ws exception
    m=re.match(r"([0-9]+\s)?\S*",rest); 
    # separator colon
    if sec=="Parameter":
        # first colon not protected by clock-time context
        sep=None
        for i,ch in enumerate(rest):
            if ch!=":" or i<m.end(): continue
            before=rest[max(0,i-3):i]; after=rest[i+1:i+3]
            if re.fullmatch(r" [0-2][0-3]| hh| HH",before): continue
            if re.match(r"[0-5][0-9]|mm|MM",after): continue
            sep=i; break
        if sep is None: sep=rest.rfind(":")
    else:
        sep=rest.rfind(":")
    if sep==-1:
        unit_end=min(m.end(),len(rest)); unit=rest[:unit_end]; val=rest[unit_end:]; desc=""
    else:
        unit_end=min(m.end(),sep); unit=rest[:unit_end]; val=rest[unit_end:sep]; desc=rest[sep+1:]
    unit=unit.strip()
    if unit.endswith("."): unit=unit.strip(".")
    return (name,unit,val.strip(),desc.strip())
mn=["A","STRT","MN EM","a1","é","X-1","Q_"]
un=["","m","us/ft","m.s","hh:mm","%","Ω","1/m","k.g.s","a:b"]
va=["","v","12","03","run 21","-7.5","two words","[x]","(y)","he \"q\"","a.b","1.5","x/y","hh","at HH"]
vt=["%02d:%02d"%(h,m) for h in range(24) for m in (0,5,30,59)]+["23:15 23-JAN-2001","01-JAN-2001 07:45","12:30:45","9:05"]
de=["","d","two words","[b] (p)","d.e","1 first","'q'"]
dc=["Time Logger: At Bottom","a: b: c","x : y"]
pads=["", " ", "   ", "\t", " \t "]
secs=["Version","Well","Curves","Parameter","~Custom",None]
bad={}
n=0
def check(m,u,v,d,p,sec,expect=None):
    global n
    line=p[0]+m+p[1]+"."+u+p[2]+v+p[3]+":"+p[4]+d+p[5]
    n+=1
    exp=expect or (m.strip(),u,v.strip(),d.strip())
    try: r=read_header_line(line,section_name=sec); got=(r["name"],r["unit"],r["value"],r["descr"])
    except Exception as e: got=("EXC",type(e).__name__)
    ip=intent_parse(line,sec)
    if got!=exp: bad.setdefault(("REAL!=EXPECTED",sec,),[]).append((line,exp,got))
    if ip!=exp: bad.setdefault(("INTENT!=EXPECTED",sec),[]).append((line,exp,ip))
for sec in secs:
    for m,u,v,d in itertools.product(mn,un,va,de):
        for _ in range(2):
            p=[random.choice(pads) for _ in range(6)]
            if v and not p[2]: p[2]=" "          # unit/value need a separator
            if re.fullmatch(r"\d+",u): continue
            if sec=="Curves" and ".." in (m+"."+u): continue
            if sec=="Parameter" and ":" in v: continue
            check(m,u,v,d,p,sec)
    # time values
    for v in vt:
        for u in ("","hh:mm","m"):
            p=[random.choice(pads) for _ in range(6)]
            if not p[2]: p[2]=" "
            if sec=="Parameter":
                for d in de+dc:
                    if ":" in d: p[3]=" "; p[4]=" "
                    check("TIML",u,v,d,p,sec)
            else:
                check("TIML",u,v,"descr",p,sec)
print("checked",n)
for k,v in bad.items():
    print(k,len(v))
    for x in v[:6]: print("    ",x)
