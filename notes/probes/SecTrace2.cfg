SPECIFICATION TSpec
CONSTRAINT Done
CONSTRAINT Reach
POSTCONDITION Post
CHECK_DEADLOCK FALSE
