---- MODULE HL ----
EXTENDS Naturals, Sequences, FiniteSets, TLC, SequencesExt
\* chars: 1=letter 2=digit 3=DOT 4=COLON 5=SP 6=TAB 7=other
DOT == 3  COL == 4  SP == 5  TAB == 6
IsWs(c) == c \in {SP, TAB}
Pools == [ m |-> { <<1>>, <<1,1>>, <<1,5,1>>, <<1,2>> },
           u |-> { <<>>, <<1>>, <<1,3,1>>, <<1,4,1>>, <<7,1>> },
           v |-> { <<>>, <<1>>, <<2>>, <<2,3,2>>, <<1,5,1>>, <<7>> },
           d |-> { <<>>, <<1>>, <<1,5,1>>, <<1,3>> } ]
Pads == { <<>>, <<SP>>, <<SP,SP,SP>>, <<TAB>>, <<SP,TAB>> }
VARIABLES f, p
Init == /\ f \in [m: Pools.m, u: Pools.u, v: Pools.v, d: Pools.d]
        /\ p \in [1..6 -> Pads]
        /\ (f.u # <<>> /\ f.v # <<>> => p[3] # <<>>)
        /\ (f.u = <<>> /\ f.v # <<>> => p[3] # <<>>)
Next == UNCHANGED <<f, p>>
Line == p[1] \o f.m \o p[2] \o <<DOT>> \o f.u \o p[3] \o f.v \o p[4] \o <<COL>> \o p[5] \o f.d \o p[6]
Strip(s) == LET idx == {i \in 1..Len(s) : ~IsWs(s[i])}
            IN IF idx = {} THEN <<>> ELSE SubSeq(s, CHOOSE i \in idx : \A j \in idx : i <= j, CHOOSE i \in idx : \A j \in idx : i >= j)
First(s, c) == LET idx == {i \in 1..Len(s) : s[i] = c} IN IF idx = {} THEN 0 ELSE CHOOSE i \in idx : \A j \in idx : i <= j
LastIdx(s, c) == LET idx == {i \in 1..Len(s) : s[i] = c} IN IF idx = {} THEN 0 ELSE CHOOSE i \in idx : \A j \in idx : i >= j
FirstWs(s) == LET idx == {i \in 1..Len(s) : IsWs(s[i])} IN IF idx = {} THEN Len(s)+1 ELSE CHOOSE i \in idx : \A j \in idx : i <= j
Parse(line) ==
  LET s == Strip(line)
      d1 == First(s, DOT)
      name == Strip(SubSeq(s, 1, d1-1))
      rest == SubSeq(s, d1+1, Len(s))
      c == LastIdx(rest, COL)
      w0 == FirstWs(rest)
      w == IF w0 < c THEN w0 ELSE c
      unit == SubSeq(rest, 1, w-1)
      val == Strip(SubSeq(rest, w, c-1))
      descr == Strip(SubSeq(rest, c+1, Len(rest)))
  IN [m |-> name, u |-> unit, v |-> val, d |-> descr]
Inv == Parse(Line) = [m |-> Strip(f.m), u |-> f.u, v |-> Strip(f.v), d |-> Strip(f.d)]
Spec == Init /\ [][Next]_<<f,p>>
====
