"""MANIFEST.setup_cmd: check that the tools are there and that every module parses."""
import glob
import os
import subprocess
import sys

from . import tlc


def main():
    ok = True
    for exe in ("java",):
        if subprocess.call(["which", exe], stdout=subprocess.DEVNULL) != 0:
            print("missing tool:", exe)
            ok = False
    if not os.path.exists(tlc.JAR):
        print("missing", tlc.JAR)
        ok = False
    mods = sorted(glob.glob(os.path.join(tlc.SPEC, "*.tla")))
    for m in mods:
        name = os.path.basename(m)[:-4]
        good, out = tlc.sany(name)
        print("SANY %-24s %s" % (name, "ok" if good else "FAILED"))
        if not good:
            print(out[-1500:])
            ok = False
    try:
        sys.path.insert(0, os.environ.get("VERIF_REPO", "/repo"))
        import lasio  # noqa
        print("lasio imported from", os.path.dirname(lasio.__file__))
    except Exception as e:  # pragma: no cover
        print("cannot import lasio:", e)
        ok = False
    sys.exit(0 if ok else 1)


if __name__ == "__main__":
    main()
