"""Run the quick checks against every seeded mutation and record the outcome in seeded/<id>/meta.json.
usage: python -m harness.seedtest [ids...]     (default: all; property check of the mutation + listed extra checks)"""
import json
import os
import re
import subprocess
import sys
from concurrent.futures import ThreadPoolExecutor

ROOT = "/verif/seeded"
EXTRA = {"C01": ["C07"], "C02": ["C05"], "C03": ["C12"], "C05": ["C02"], "C06": ["C01"], "C07": ["C02"], "C09": ["C02"],
         "C11": ["C03"], "C12": ["C03"], "C13": ["C15"], "C14": ["C13"], "C15": ["C13"], "C16": ["C11"], "C17": [], "C19": ["C05"]}


def one(sid):
    d = os.path.join(ROOT, sid)
    prop = sid.split("-")[0]
    pids = [prop] + EXTRA.get(prop, [])
    p = subprocess.run([sys.executable, "-m", "harness.mutant", os.path.join(d, "patch.diff")] + pids, cwd="/verif",
                       stdout=subprocess.PIPE, stderr=subprocess.STDOUT, universal_newlines=True, timeout=3600)
    res = {}
    for line in p.stdout.splitlines():
        m = re.match(r"^(C\d+) exit=(\d+) (.*)$", line)
        if m:
            clauses = sorted(set(re.findall(r"clause=(\S+)", m.group(3))))
            res[m.group(1)] = {"exit": int(m.group(2)), "clauses": clauses}
    meta_path = os.path.join(d, "meta.json")
    meta = json.load(open(meta_path))
    meta["detected_by"] = {k: v for k, v in res.items() if v["exit"] == 1}
    meta["not_detected_by"] = sorted(k for k, v in res.items() if v["exit"] == 0)
    meta["machinery_failures"] = sorted(k for k, v in res.items() if v["exit"] not in (0, 1))
    meta["ran"] = ("cd /verif && python -m harness.mutant seeded/%s/patch.diff %s   (quick tier, VERIF_REPO = scratch copy of /repo/lasio "
                   "with the patch applied; copy removed afterwards)" % (sid, " ".join(pids)))
    json.dump(meta, open(meta_path, "w"), indent=1)
    return sid, res


def main():
    ids = sys.argv[1:] or sorted(os.listdir(ROOT))
    with ThreadPoolExecutor(max_workers=3) as ex:
        for sid, res in ex.map(one, ids):
            print(sid, {k: (v["exit"], v["clauses"][:2]) for k, v in res.items()})
            sys.stdout.flush()


if __name__ == "__main__":
    main()
