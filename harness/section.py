"""Binding of Section.tla / SectionAlgo.tla to real lasio.SectionItems objects."""
import copy
import json
import pickle

import numpy as np
import random
from collections import deque

from . import core, tlc

import lasio  # noqa: E402  (core put $VERIF_REPO first on sys.path)
from lasio.las_items import CurveItem, HeaderItem, SectionItems

LIST_ATTRS = set(dir(list)) | set(dir(SectionItems))


class Real(object):
    """A real section plus the identity registry the projection needs."""

    def __init__(self, xf, kind="header", section=None):
        self.sec = section if section is not None else SectionItems()
        if section is None:
            self.sec.mnemonic_transforms = bool(xf)
        self.xf = bool(self.sec.mnemonic_transforms)
        self.kind = kind
        self.ids = {}
        self.keep = []
        self.next_id = 1
        for it in self.sec:
            self.ident(it)

    def ident(self, item):
        k = id(item)
        if k not in self.ids:
            self.ids[k] = self.next_id
            self.keep.append(item)
            self.next_id += 1
        return self.ids[k]

    def detached(self):
        """items this history has seen that are not in the section now (deleted or replaced earlier)"""
        inside = set(id(x) for x in list.__iter__(self.sec))
        return [it for it in self.keep if id(it) not in inside and isinstance(it, HeaderItem)]

    def take(self, e):
        """the item an adding operation puts in: a fresh one named e['n'], or - when the event asks for it and there is one - an item
        that was taken out of the section earlier in this history and still carries the session mnemonic it had then (':2', ...).
        Putting it back is an insertion like any other: the event logs its original mnemonic as the name and its old identity."""
        if e.get("reuse"):
            d = self.detached()
            if d:
                it = d[e["reuse"] % len(d)]
                e["n"] = it.original_mnemonic
                e["re"] = True
                return it, self.ident(it)
        return self.new(e["n"])

    def new(self, name):
        if self.kind == "curve":
            it = CurveItem(name, value=0, data=[1.0, 2.0])
        else:
            it = HeaderItem(name, value=0)
        return it, self.ident(it)

    def project(self):
        out = []
        for it in list.__iter__(self.sec):
            v = it.value
            vc = 1 if (v == 1 and not isinstance(v, bool)) else 0
            # a curve's samples are part of what "the item's value" means for the frame clauses: the class moves by 10 as soon as
            # the array differs from what it was when the item was first seen
            d = getattr(it, "data", None)
            try:
                key = None if d is None else (str(np.asarray(d).dtype), np.asarray(d).tobytes())
            except Exception:
                key = repr(d)
            data0 = self.__dict__.setdefault("data0", {})
            if data0.setdefault(id(it), key) != key:
                vc += 10
            out.append({"id": self.ident(it), "o": it.original_mnemonic, "s": it.mnemonic, "v": vc})
        return out

    def apply(self, e):
        """Perform model event e (op + arguments) on the real object; return the logged event."""
        op = e["op"]
        ev = {"op": op, "exc": ""}
        sec = self.sec
        try:
            if op == "append":
                it, nid = self.take(e)
                ev.update(n=e["n"], nid=nid, re=bool(e.get("re")))
                sec.append(it)
            elif op == "insert":
                it, nid = self.take(e)
                ev.update(n=e["n"], nid=nid, i=e["i"], re=bool(e.get("re")))
                sec.insert(e["i"], it)
            elif op == "delidx":
                ev.update(i=e["i"])
                del sec[e["i"]]
            elif op == "delkey":
                ev.update(k=e["k"])
                del sec[e["k"]]
            elif op == "setidx":
                it, nid = self.new(e["n"])
                ev.update(n=e["n"], nid=nid, i=e["i"])
                sec[e["i"]] = it
            elif op == "delslice":
                ev.update(a=e["a"], b=e["b"])
                del sec[e["a"]:e["b"]]
            elif op == "setitem":
                it, nid = self.new(e["n"])
                ev.update(k=e["k"], n=e["n"], nid=nid)
                self.calls = getattr(self, "calls", 0) + 1
                k = e["k"]
                # every second call goes through attribute assignment (section.KEY = item), which must mean the same:
                # replace if KEY is present; append if it is absent and the item carries that very name
                present = k in sec
                if self.calls % 2 == 0 and k.isidentifier() and k not in LIST_ATTRS and (present or it.mnemonic == k):
                    setattr(sec, k, it)
                    ev["via"] = "attr"
                else:
                    sec[k] = it
            elif op == "setvalue":
                ev.update(k=e["k"], v=e["v"])
                self.calls = getattr(self, "calls", 0) + 1
                k = e["k"]
                if self.calls % 2 == 0 and k.isidentifier() and k not in LIST_ATTRS and k in sec:
                    setattr(sec, k, e["v"])          # section.KEY = value
                    ev["via"] = "attr"
                else:
                    sec[k] = e["v"]
            elif op == "get":
                ev.update(k=e["k"], add=bool(e["add"]))
                self.calls = getattr(self, "calls", 0) + 1
                items_now = list(list.__iter__(sec))
                plain = [i for i in items_now if not (i.value == 1 and not isinstance(i.value, bool))]
                if self.calls % 3 == 0 and plain:
                    # the default may be an item, e.g. one that already sits in the section: it is a template, never the result
                    r = sec.get(e["k"], default=plain[self.calls % len(plain)], add=bool(e["add"]))
                    ev["via"] = "default-item"
                else:
                    r = sec.get(e["k"], add=bool(e["add"]))
                known = id(r) in self.ids
                rid = self.ident(r)
                ev.update(rid=rid, reto=r.original_mnemonic, nid=rid if not known else 0)
            else:
                raise tlc.MachineryError("unknown op %r" % op)
        except tlc.MachineryError:
            raise
        except Exception as x:          # whatever the operation raises is an observation (the clause C_Exc decides)
            ev["exc"] = type(x).__name__
        ev["post"] = self.project()
        return ev

    def probe(self, keys):
        sec = self.sec
        n = len(sec)
        ks = []
        for k in keys:
            q = {"k": k}
            q["contains"] = bool(k in sec)
            try:
                q["item"] = self.ident(sec[k])
            except KeyError:
                q["item"] = 0
            except Exception:          # a string key that is not a mnemonic must raise KeyError, nothing else: an observation
                q["item"] = -3
            if k.isidentifier() and k not in LIST_ATTRS and not k.startswith("_"):
                try:
                    q["attr"] = self.ident(getattr(sec, k))
                except AttributeError:
                    q["attr"] = 0
                except Exception:
                    q["attr"] = -3
            else:
                q["attr"] = -1
            q["las"] = -1
            las = getattr(self, "las", None)
            if las is not None and self.kind == "curve" and sec is las.curves and k in [i.mnemonic for i in list.__iter__(sec)]:
                try:
                    arr = las[k]
                    if arr is not None:        # (items made by get(add=True) on an empty section carry no data)
                        owner = [c for c in list.__iter__(sec) if c.data is arr]
                        q["las"] = self.ident(owner[0]) if owner else -2
                except KeyError:
                    q["las"] = 0
            ks.append(q)
        # the same lookups on a copy of the section (copy.deepcopy and a pickle round trip in turn): a copy is a section like any
        # other, with the same case policy; its items are identified by position
        ck = []
        self.probes = getattr(self, "probes", 0) + 1
        try:
            dup = copy.deepcopy(sec) if self.probes % 2 else pickle.loads(pickle.dumps(sec))
            pos = {id(x): j for j, x in enumerate(list.__iter__(dup))}
            orig = [self.ident(x) for x in list.__iter__(sec)]
            ident2 = lambda x: orig[pos[id(x)]] if id(x) in pos and pos[id(x)] < len(orig) else -2
            if len(dup) == len(orig):
                for k in keys:
                    q = {"k": k, "contains": bool(k in dup)}
                    try:
                        q["item"] = ident2(dup[k])
                    except KeyError:
                        q["item"] = 0
                    except Exception:
                        q["item"] = -3
                    q["attr"] = -1
                    if k.isidentifier() and k not in LIST_ATTRS and not k.startswith("_"):
                        try:
                            q["attr"] = ident2(getattr(dup, k))
                        except AttributeError:
                            q["attr"] = 0
                        except Exception:
                            q["attr"] = -3
                    ck.append(q)
        except Exception:
            ck = []                      # whether a section can be copied at all is C17's business, not this clause's
        ints = []
        for i in range(-n - 1, n + 1):
            try:
                ints.append({"i": i, "item": self.ident(sec[i])})
            except IndexError:
                ints.append({"i": i, "item": 0})
            except Exception:
                ints.append({"i": i, "item": -3})
        slices = []
        for a, b in ((0, n), (1, n), (0, 1), (-1, n), (0, -1), (1, 2), (2, 1), (-2, -1), (0, n + 2)):
            r = sec[a:b]
            slices.append({"a": a, "b": b, "ids": [self.ident(x) for x in list.__iter__(r)],
                           "cls": type(r).__name__})
        return {"op": "probe", "exc": "", "keys": ks, "ckeys": ck, "ints": ints, "slices": slices, "post": self.project()}


def roundtrip_event(real):
    """Write the LASFile that holds the section and read it back (preserve case); project the same section."""
    import io
    las = real.las
    ev = {"op": "roundtrip", "exc": "", "post": []}
    try:
        s = io.StringIO()
        las.write(s)
        back = lasio.read(s.getvalue(), mnemonic_case="preserve")
    except Exception as e:
        ev["exc"] = "%s: %s" % (type(e).__name__, str(e)[:80])
        return ev
    sec = back.curves if real.kind == "curve" else back.params
    ev["post"] = [{"id": 0, "o": it.original_mnemonic, "s": it.mnemonic, "v": 0} for it in list.__iter__(sec)]
    return ev


def canon(xf, items):
    return (bool(xf), tuple((i["o"], i["s"], i["v"]) for i in items))


def probe_keys(real, pool):
    ks = list(pool)
    for k in ("0", "1", "-1", "+1", " 1", "2"):      # integer-like strings are names, not positions
        if k not in ks:
            ks.append(k)
    for it in real.project():
        for k in (it["s"], it["s"].swapcase(), it["o"], it["s"] + "  ", " " + it["s"]):
            if isinstance(k, str) and k not in ks:
                ks.append(k)
    return ks


def strings_of(traces):
    out = set(["UNKNOWN"])

    def walk(x):
        if isinstance(x, str):
            out.add(x)
        elif isinstance(x, dict):
            for v in x.values():
                walk(v)
        elif isinstance(x, list):
            for v in x:
                walk(v)
    walk(traces)
    return out


def doc_for(traces):
    names = strings_of(traces)
    # suffixed forms the intent layer may build while checking NumberedGroup
    up = {}
    for s in names:
        up[s] = s.upper()
    return {"up": up, "blank": sorted(s for s in names if s.strip() == "") or [""], "traces": traces}


def edges_from_tlc(ctx, names, keypool, maxlen, workers=16, timeout=3000):
    def tset(xs):
        return "{" + ", ".join(json.dumps(x) for x in xs) + "}"
    cfg = ("SPECIFICATION Spec\nCONSTANTS\n  Names = %s\n  KeyPool = %s\n  MaxLen = %d\n  MaxDepth = 0\n  Emit = TRUE\n"
           "ACTION_CONSTRAINT EmitEdge\nPROPERTY Refines\nINVARIANT DistinctOrKnown\nINVARIANT ResolvesInv\n"
           "VIEW View\nCHECK_DEADLOCK FALSE\n" % (tset(names), tset(keypool), maxlen))
    r = ctx.model_check("SectionAlgo", cfg, label="SectionAlgo refines Section (names=%s, MaxLen=%d)" % (names, maxlen),
                        workers=workers, timeout=timeout)
    edges = r.printed_json()
    edges.sort(key=lambda ed: json.dumps(ed, sort_keys=True))     # TLC's print order depends on worker scheduling
    if len(edges) != r.generated - 2:       # every generated successor is printed exactly once (2 initial states)
        raise tlc.MachineryError("edge dump incomplete: %d printed, %d generated" % (len(edges), r.generated))
    return edges, r


def design_counterexample(ctx, names, keypool, maxlen):
    """Show at design level that the strict invariant fails exactly on the recorded D14 class."""
    def tset(xs):
        return "{" + ", ".join(json.dumps(x) for x in xs) + "}"
    cfg = ("SPECIFICATION Spec\nCONSTANTS\n  Names = %s\n  KeyPool = %s\n  MaxLen = %d\n  MaxDepth = 0\n  Emit = FALSE\n"
           "ACTION_CONSTRAINT EmitEdge\nINVARIANT DistinctStrict\nVIEW View\nCHECK_DEADLOCK FALSE\n"
           % (tset(names), tset(keypool), maxlen))
    r = tlc.run("SectionAlgo", cfg, workers=4, timeout=600, allow_violation=True)
    return r.violation == "DistinctStrict"


def paths(edges):
    """Shortest path of events from an initial state to every model state."""
    succ = {}
    for ed in edges:
        succ.setdefault(canon(ed["xf"], ed["pre"]), []).append(ed)
    path = {}
    q = deque()
    for xf in (False, True):
        path[(xf, ())] = []
        q.append((xf, ()))
    while q:
        s = q.popleft()
        for ed in succ.get(s, ()):
            t = canon(ed["xf"], ed["post"])
            if t not in path:
                path[t] = path[s] + [ed["e"]]
                q.append(t)
    return path


def replay_edges(ctx, edges, keypool, kind="header", limit=None, rng=None):
    """Replay every model transition on a real object; return traces (+ drift)."""
    path = paths(edges)
    traces = []
    meta = []
    order = list(range(len(edges)))
    if limit is not None and len(order) > limit:
        rng.shuffle(order)
        order = sorted(order[:limit])
    for ix in order:
        ed = edges[ix]
        pre = canon(ed["xf"], ed["pre"])
        if pre not in path:
            raise tlc.MachineryError("model state without a path: %r" % (pre,))
        las = lasio.LASFile()
        host = las.curves if kind == "curve" else las.params
        host.mnemonic_transforms = bool(ed["xf"])
        real = Real(ed["xf"], kind, section=host)
        real.las = las
        for e in path[pre]:
            real.apply(e)
        tr = [{"op": "init", "exc": "", "xf": real.xf, "post": real.project()}]
        got_pre = canon(real.xf, tr[0]["post"])
        ev = real.apply(ed["e"])
        tr.append(ev)
        tr.append(real.probe(probe_keys(real, keypool)))
        if not real.xf and ix % 7 == 0 and all(isinstance(c, (CurveItem if kind == "curve" else HeaderItem))
                                                 and (kind != "curve" or (c.data is not None and len(c.data) == 2))
                                                 for c in list.__iter__(host)) and all(":" not in i["o"] and "." not in i["o"]
                                                                                     for i in ev["post"]):
            tr.append(roundtrip_event(real))
        ctx.evaluations += 1
        traces.append(tr)
        meta.append({"path": path[pre], "e": ed["e"], "xf": ed["xf"], "kind": kind})
        want = canon(ed["xf"], ed["post"])
        got = canon(real.xf, ev["post"])
        if got_pre != pre or got != want or ev["exc"] != ed["e"].get("exc", ""):
            ctx.drift.append({"path": path[pre], "e": ed["e"], "model": [list(x) for x in want[1]],
                              "impl": [list(x) for x in got[1]]})
        ctx.case([ed["xf"], ed["pre"] and [list(x) for x in pre[1]], {k: v for k, v in ed["e"].items() if k != "nid"}])
    return traces, meta


def replay_putbacks(ctx, edges, keypool, kind="header", limit=None, rng=None):
    """Replay the put-back transitions of SectionReuse on real sections.  The pre-state (items with the session names the model
    says they carry, stale ones included) is built directly - every such state is reachable by a plain history, which the
    SectionAlgo replay covers - and the detached item is a real item carrying the stale session name it left with."""
    cls = CurveItem if kind == "curve" else HeaderItem
    order = list(range(len(edges)))
    if limit is not None and len(order) > limit:
        rng.shuffle(order)
        order = sorted(order[:limit])
    traces, meta = [], []

    def make(rec):
        it = cls(rec["o"], value=0, data=[1.0, 2.0]) if kind == "curve" else cls(rec["o"], value=0)
        it.set_session_mnemonic_only(rec["s"])
        if rec["v"] == 1:
            it.value = 1
        return it

    for ix in order:
        ed = edges[ix]
        sec = SectionItems()
        sec.mnemonic_transforms = bool(ed["xf"])
        for rec in ed["pre"]:
            list.append(sec, make(rec))
        real = Real(ed["xf"], kind, section=sec)
        tr = [{"op": "init", "exc": "", "xf": real.xf, "post": real.project()}]
        spare = make(ed["spare"])
        e = ed["e"]
        ev = {"op": e["op"], "exc": "", "n": spare.original_mnemonic, "nid": real.ident(spare), "re": True}
        try:
            if e["op"] == "append":
                sec.append(spare)
            else:
                ev["i"] = e["i"]
                sec.insert(e["i"], spare)
        except Exception as x:
            ev["exc"] = type(x).__name__
        ev["post"] = real.project()
        tr.append(ev)
        tr.append(real.probe(probe_keys(real, keypool)))
        traces.append(tr)
        meta.append({"putback": ed["spare"], "pre": ed["pre"], "e": e, "xf": ed["xf"], "kind": kind})
        ctx.evaluations += 1
        ctx.case(["putback", ed["xf"], [[r["o"], r["s"]] for r in ed["pre"]], [ed["spare"]["o"], ed["spare"]["s"]], e.get("i", "append"), kind])
        want = [(r["o"], r["s"]) for r in ed["post"]]
        got = [(r["o"], r["s"]) for r in ev["post"]]
        if want != got:
            ctx.drift.append({"putback": ed["spare"], "pre": ed["pre"], "e": e, "model": want, "real": got})
    return traces, meta


def random_histories(ctx, rng, n, maxops, names, kind="header", read_case=None):
    """code -> spec: random operation histories on real sections, larger alphabets / longer runs."""
    traces, meta = [], []
    for _ in range(n):
        xf = rng.random() < 0.5
        if read_case is not None:
            real, hist0 = read_section(rng, names, read_case, kind)
        else:
            real, hist0 = Real(xf, kind), []
        tr = [{"op": "init", "exc": "", "xf": real.xf, "post": real.project()}]
        hist = []
        for _ in range(rng.randint(1, maxops)):
            sess = [i["s"] for i in real.project()]
            keys = sess + [s.swapcase() for s in sess] + list(names) + ["Z", "UNKNOWN"]
            op = rng.choice(["append", "append", "insert", "insert", "delidx", "delkey", "setitem", "setvalue", "get", "get",
                             "setidx", "delslice"])
            e = {"op": op}
            ln = len(sess)
            if op in ("append", "insert", "setitem", "setidx"):
                e["n"] = rng.choice(names)
            if op in ("append", "insert") and rng.random() < 0.3:
                e["reuse"] = rng.randint(1, 1000)        # put back an item deleted earlier in this history, if there is one
            if op in ("insert", "delidx", "setidx"):
                e["i"] = rng.randint(-ln - 1, ln + 1)
            if op == "delslice":
                e["a"], e["b"] = rng.randint(-ln - 1, ln + 1), rng.randint(-ln - 1, ln + 1)
            if op in ("delkey", "setitem", "setvalue", "get"):
                e["k"] = rng.choice(keys)
            if op == "setvalue":
                e["v"] = 1
            if op == "get":
                e["add"] = rng.random() < 0.5
            hist.append(e)
            tr.append(real.apply(e))
            if rng.random() < 0.3:
                tr.append(real.probe(probe_keys(real, ["Z"])))
        tr.append(real.probe(probe_keys(real, list(names) + ["Z"])))
        ctx.evaluations += 1
        ctx.case([real.xf, hist0, hist])
        traces.append(tr)
        meta.append({"read": hist0, "history": hist, "xf": real.xf, "kind": kind})
    return traces, meta


def read_section(rng, names, case, kind):
    """A section produced by lasio.read from a generated file (mnemonic_case = case)."""
    k = rng.randint(0, 4)
    ms = [rng.choice([n for n in names if "." not in n and ":" not in n or True]) for _ in range(k)]
    # blank mnemonics only on lines with no further period; names with ':' cannot be written before the period
    ms = [m for m in ms if ":" not in m and "." not in m]
    lines = ["~V", "VERS. 2.0:", "WRAP. NO:", "~W", "NULL. -999.25:"]
    sect = "~C" if kind == "curve" else "~P"
    if kind == "curve":
        lines += ["~C"] + ["%s.u : d" % m for m in ms] + ["~A"]
        lines += [" ".join(str(j + 1) for j in range(max(len(ms), 1)))]
    else:
        lines += ["~C", "DEPT.M:", "~P"] + ["%s.u 7 : d" % m for m in ms] + ["~A", "1"]
    las = lasio.read("\n".join(lines) + "\n", mnemonic_case=case)
    sec = las.curves if kind == "curve" else las.params
    real = Real(None, kind, section=sec)
    real.las = las
    return real, {"case": case, "section": sect, "mnemonics": ms}


def judge(ctx, traces, meta, fails, prefix):
    """Turn FAIL lines into verdicts for the clauses of this property (prefix 'C13.' / 'C15.')."""
    for tid, l, clause in fails:
        if not clause.startswith(prefix):
            continue
        ev = traces[tid][l]
        detail = "event %d (%s) of trace %d: post=%s" % (l, {k: v for k, v in ev.items() if k not in ("post", "keys", "ints", "slices")},
                                                         tid, [(i["o"], i["s"]) for i in ev["post"]])
        ctx.report(clause, detail, {"meta": meta[tid], "trace": traces[tid], "event": l})
