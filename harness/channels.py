"""Binding for C10: channel / encoding independence and purity of reads (Trace_Channels.tla)."""
import hashlib
import io
import itertools
import json
import os
import pathlib

from . import core, tlc
from .copying import project

import lasio  # noqa: E402
from lasio.las_items import HeaderItem

FULL = ("~Version\nVERS. 2.0 : v\nWRAP. NO : w\n~Well\nSTRT.M 1.0 : start\nSTOP.M 2.0 : stop\nSTEP.M 0.5 : step\n"
        "NULL. -999.25 : null\nWELL. café Nº1 : wéll name\nFLD. µ-field : ° sign\n~Curves\nDept.M : depth\n"
        "Gr.µR/h : gamma é\n~Params\nBht.°C 80 : temp\n~Other\nfree téxt\n~ASCII\n1.0 10\n1.5 -999.25\n2.0 30\n")
NOWELL = ("~Version\nVERS. 2.0 : v\nWRAP. NO : w\n~Curves\nDept.M : depth é\nGr. : gamma\n~ASCII\n1.0 10\n1.5 20\n")
CYR = FULL.replace("Dept.M", "Dept.м").replace("STRT.M", "STRT.м").replace("STOP.M", "STOP.м").replace(
    "STEP.M", "STEP.м").replace("café", "скважина")
# characters that str.splitlines()/str.isspace() treat specially but that are ordinary text inside a header field
NEL = FULL.replace("café Nº1", "ca\x85fé\xa0Nº1").replace("free téxt", "free\x85téxt")
# decimal commas in the data (default read policy) and a comma-delimited file: reads of one must not change reads of the other
COMMADEC = NOWELL.replace("1.0 10\n1.5 20\n", "1,0 10,5\n1,5 20,25\n")
COMMADLM = NOWELL.replace("WRAP. NO : w\n", "WRAP. NO : w\nDLM. COMMA : d\n").replace("1.0 10\n1.5 20\n", "1.0,10\n1.5,20\n")
# section titles that do not start in column 0 (odd and even numbers of leading blanks)
INDENT = FULL.replace("~Params", " ~Params").replace("~Other", "   ~Other").replace("~Curves", "  ~Curves")
# files longer than the 4000-byte sample lasio takes for encoding detection, with multi-byte characters on both sides of (and,
# for one of the two alignments and each BOM / newline variant, across) that boundary
def _long(shift):
    pad = "".join("P%03d.M %d : filler line %d\n" % (i, i, i) for i in range(100))
    head = FULL.split("~Other")[0] + pad
    n = len(head.encode("utf-8"))
    fill = "X" * max(0, 3890 + shift - n)
    return head + "LONG. 1 : " + fill + "é" * 120 + " end\n~Other" + FULL.split("~Other")[1]


LONGA, LONGB = _long(0), _long(1)
# characters that a "helpful" normalisation would change: combining sequences, canonical singletons (OHM SIGN, ANGSTROM SIGN),
# compatibility forms, characters outside the BMP, letters whose case mapping changes length; and header VALUES made only of
# non-ASCII decimal digits (they are text, not numbers)
UNI = FULL.replace("café Nº1", "cafe\u0301 N\u00ba1 \U0001d6fc").replace("µ-field", "\u2126-field \u212b \ufb01 \u00df \u0130") \
    .replace("Bht.°C 80 : temp", "Bht.\u00b0C 80 : temp\nTHAI. \u0e52\u0e55\u0e56\u0e56 : thai digits\nFULLW. \uff11\uff12 : full-width digits\n"
             "ARAB. \u0663\u0664\u0665 : arabic-indic digits")
CONTENTS = {"uni": UNI, "longa": LONGA, "longb": LONGB, "full": FULL, "nowell": NOWELL, "cyr": CYR, "nel": NEL, "commadec": COMMADEC, "commadlm": COMMADLM, "indent": INDENT}
TOKENS = {"uni": ["cafe\u0301 N\u00ba1 \U0001d6fc", "\u2126-field \u212b \ufb01 \u00df \u0130", "\u0e52\u0e55\u0e56\u0e56", "\uff11\uff12",
                  "\u0663\u0664\u0665"],
          "longa": ["é" * 120 + " end", "café Nº1"], "longb": ["é" * 120 + " end", "free téxt"], "full": ["café Nº1", "wéll name", "µ-field", "° sign", "µR/h", "gamma é", "°C", "free téxt"],
          "nowell": ["depth é"],
          "cyr": ["скважина", "м", "µR/h"],
          "nel": ["ca\x85fé\xa0Nº1", "free\x85téxt", "µ-field"], "commadec": ["depth é"], "commadlm": ["depth é"],
          "indent": ["café Nº1", "µR/h", "°C"]}
OPTS = {"default": {}, "preserve": {"mnemonic_case": "preserve"}, "normal": {"engine": "normal"},
        "lower_ihe": {"mnemonic_case": "lower", "ignore_header_errors": True}}
NL = {"LF": "\n", "CRLF": "\r\n", "CR": "\r"}


def digest(las):
    p = project(las)
    p["attrs"] = [a for a in p["attrs"] if a[0] != "encoding"]
    return hashlib.sha1(json.dumps(p, sort_keys=True).encode("utf-8")).hexdigest()[:16], p


def pristine_digests():
    """Result digest of every (content, options) pair, each computed in its own fresh interpreter."""
    import subprocess
    import sys
    out = {}
    code = ("import sys, io, json; sys.path.insert(0, %r); sys.path.insert(0, %r); import logging; logging.disable(50);"
            "from harness import channels; import lasio;"
            "c, o = sys.argv[1:3]; las = lasio.read(io.StringIO(channels.CONTENTS[c]), **channels.OPTS[o]);"
            "print(channels.digest(las)[0])")
    procs = []
    for c in sorted(CONTENTS):
        for o in sorted(OPTS):
            p = subprocess.Popen([sys.executable, "-c", code % (core.VERIF, core.REPO), c, o], stdout=subprocess.PIPE,
                                 stderr=subprocess.PIPE, universal_newlines=True, cwd=core.VERIF,
                                 env=dict(os.environ, PYTHONHASHSEED="0", VERIF_REPO=core.REPO))
            procs.append((c, o, p))
    for c, o, p in procs:
        so, se = p.communicate()
        if p.returncode != 0 or not so.strip():
            raise tlc.MachineryError("pristine read of %s/%s failed: %s" % (c, o, se[-500:]))
        out[c + "|" + o] = so.strip()
    return out


def has_tokens(las, toks):
    parts = []
    for sec in las.sections.values():
        if isinstance(sec, str):
            parts.append(sec)
        else:
            for it in list.__iter__(sec):
                parts += [str(it.original_mnemonic), str(it.unit), str(it.value), str(it.descr)]
    blob = "\n".join(parts)
    return all(t in blob for t in toks)


class World(object):
    def __init__(self, work):
        self.work = work
        self.objs = []
        self.files = {}
        self.count = 0

    def path_for(self, c, enc, nl):
        key = (c, enc, nl)
        if key not in self.files:
            text = CONTENTS[c].replace("\n", NL[nl])
            p = os.path.join(self.work, "f%d.las" % len(self.files))
            with open(p, "wb") as f:
                f.write(text.encode(enc))
            self.files[key] = p
        return self.files[key]

    def live(self):
        return [digest(o)[0] for o in self.objs]

    def read(self, e):
        c, ch, enc, nl, opt = e["c"], e["ch"], e["enc"], e["nl"], e["opt"]
        if c in ("cyr", "uni") and enc in ("latin-1", "cp1252"):
            enc = "utf-8"
        if c == "nel" and enc == "cp1252":
            enc = "latin-1"         # U+0085 has no cp1252 encoding
        kw = dict(OPTS[opt])
        try:
            return self._read(e, c, ch, enc, nl, opt, kw)
        except Exception as x:       # a read that fails is an observation (it cannot equal the pristine result)
            self.objs.append(lasio.LASFile())
            return {"op": "read", "c": c, "opt": opt, "ch": ch, "enc": enc, "nl": nl, "digest": "EXC:" + type(x).__name__,
                    "nonascii_ok": False, "live": self.live()}

    def _read(self, e, c, ch, enc, nl, opt, kw):
        if ch in ("StringIO", "string"):
            if nl == "CR":
                nl = "LF"           # CR-only line ends are claimed for files only
            text = CONTENTS[c].replace("\n", NL[nl])
            las = lasio.read(io.StringIO(text) if ch == "StringIO" else text, **kw)
            enc = "-"
        else:
            path = self.path_for(c, enc, nl)
            if ch == "file":
                with open(path, encoding=enc) as f:
                    las = lasio.read(f, **kw)
            else:
                # (the size of the auto-detection sample is an option that must not matter: the BOM is looked for on its own)
                self.reads = getattr(self, "reads", 0) + 1
                chars = [None, 1, 2, 50, 4000, 100000][self.reads % 6]
                if chars is not None:
                    kw["autodetect_encoding_chars"] = chars
                if enc != "utf-8-sig":
                    kw["encoding"] = enc
                elif e.get("explicit_bom"):
                    kw["encoding"] = e["explicit_bom"]       # a BOM file read with an explicit encoding= (utf-8 or utf-8-sig)
                elif self.reads % 3 == 2:
                    # the BOM is looked for before, and independently of, any detection of the codec from the content:
                    # switching that detection off (a legal option value) must not matter for a file that has one
                    kw["autodetect_encoding"] = False
                las = lasio.read(pathlib.Path(path) if ch == "Path" else path, **kw)
        self.objs.append(las)
        d, p = digest(las)
        return {"op": "read", "c": c, "opt": opt, "ch": ch, "enc": enc, "nl": nl, "digest": d,
                "nonascii_ok": has_tokens(las, TOKENS[c]), "live": self.live()}

    def mutate(self, k):
        las = self.objs[k - 1]
        self.count += 1
        how = self.count % 4
        try:
            if how == 0:
                las.well["COMP"].value = "mutated %d" % self.count if "COMP" in las.well else None
                if "COMP" not in las.well:
                    las.well.append(HeaderItem("COMP", value="mutated %d" % self.count))
            elif how == 1:
                las.version["VERS"].descr = "mutated %d" % self.count
            elif how == 2:
                las.curves[0].data[0] += 1000.0 + self.count
            else:
                las.params.append(HeaderItem("MUT%d" % self.count, value=self.count))
        except (KeyError, IndexError, TypeError):
            # the object lacks what this edit addresses (a read that went wrong is judged by its own event): edit something else
            las.params.append(HeaderItem("MUT%d" % self.count, value=self.count))
        return {"op": "mutate", "k": k, "live": self.live()}

    def write(self, k):
        las = self.objs[k - 1]
        try:
            las.write(io.StringIO(), version=1.2 if self.count % 2 else None)
        except Exception:
            pass        # an object that cannot be written (a read gone wrong, judged by its own event) still must not disturb the others
        return {"op": "write", "k": k, "live": self.live()}


def abstract_paths(edges):
    """All paths of the state graph, where parallel read edges differing only in (channel, encoding, newline) are merged."""
    key = lambda st: json.dumps(st, sort_keys=True)
    succ = {}
    for ed in edges:
        e = ed["e"]
        sig = (e["op"], e.get("c"), e.get("opt"), e.get("k"))
        succ.setdefault(key(ed["pre"]), {})[(sig, key(ed["post"]))] = ed
    init = key({"heap": [], "d": 0, "n": 0})
    out = []

    def walk(s, acc):
        nxt = succ.get(s)
        if not nxt:
            if acc:
                out.append(acc)
            return
        for (sig, t), ed in sorted(nxt.items(), key=lambda x: repr(x[0])):
            walk(t, acc + [sig])
    walk(init, [])
    return out
