"""Binding for C16: write() effects, determinism and truthful STRT/STOP/STEP (Trace_Write.tla)."""
import hashlib
import io
import json
import re
from collections import deque

import numpy as np

from . import core, tlc
from .copying import arr_digest, val

import lasio  # noqa: E402
from lasio.las_items import CurveItem, HeaderItem

SHAPES = {
    "inc": [100.0, 100.5, 101.0, 101.5],
    "dec": [2500.75, 2500.5, 2500.25, 2500.0],
    "single": [1234.5],
    "irregular": [10.0, 10.25, 11.0, 14.5],
    "returning": [10.0, 10.5, 11.0, 10.0],        # not monotonic: the last sample equals the first, the first increment is 0.5
}
# tall indexes: row counts at and around the block sizes a buffered writer might use (the model's histories do not depend on the
# shape, so every history admitted for "inc" is also a history for these)
TALL = [255, 256, 257, 512, 1000, 1001, 2000, 2048]
for _n in TALL:
    SHAPES["tall%d" % _n] = [100.0 + 0.5 * i for i in range(_n)]
OPTS = {
    "default": {},
    "v12": {"version": 1.2},
    "v20": {"version": 2.0},
    "wrap": {"wrap": True},
    "nowrap": {"wrap": False},
    "fmt2": {"fmt": "%.2f"},
    "fmt8wide": {"fmt": "%.8f", "len_numeric_field": 22, "column_fmt": {0: "%.3f"}},
    "hdr": {"mnemonics_header": True, "data_section_header": "~A"},
    "spacers": {"spacer": "  ", "lhs_spacer": "", "len_numeric_field": -1},
    "v12wrap": {"version": 1.2, "wrap": True, "data_width": 40},
    "tabspacer": {"spacer": "\t", "wrap": False},
    # the index column printed finer than the other columns: STRT/STOP/STEP must follow the index column's format
    "idxfine": {"fmt": "%.1f", "column_fmt": {0: "%.3f"}},
    "idxfine_d": {"fmt": "%d", "column_fmt": {0: "%.4f"}, "wrap": False},
}


def snapshot(las):
    secs = []
    for name, sec in las.sections.items():
        if isinstance(sec, str):
            secs.append({"name": name, "items": [{"o": "", "ou": "", "s": "", "u": "", "v": "str:%r" % sec, "d": ""}]})
        else:
            items = []
            for it in list.__iter__(sec):
                items.append({"o": it.original_mnemonic, "ou": it.original_mnemonic.upper(), "s": it.mnemonic,
                              "u": str(it.unit), "v": val(it.value), "d": str(it.descr)})
            secs.append({"name": name, "items": items})
    return {"secs": secs, "arrays": [arr_digest(c.data) for c in list.__iter__(las.curves)]}


def make_origin(kind, shape, rng):
    idx = np.array(SHAPES[shape])
    gr = np.array([50.25 + 3 * i for i in range(len(idx))])
    gr2 = np.array([1.5 * i - 2 for i in range(len(idx))])
    if kind == "build":
        las = lasio.LASFile()
        las.append_curve("DEPT", idx, unit=rng.choice(["m", "ft", "M"]))
        las.append_curve("GR", gr, unit="gAPI", descr="gamma")
        las.append_curve("GR", gr2)
        las.well["WELL"].value = "W-1"
        las.params.append(HeaderItem("BHT", "degC", "", "empty with unit"))
        las.params.append(HeaderItem("MUD", "", None, "none value"))
        las.params.append(HeaderItem("", "", 7, "blank mnemonic"))
        return las
    stop = idx[-1] if kind == "read_ok" else idx[-1] + 7.0
    step = (idx[1] - idx[0]) if len(idx) > 1 else 0.0
    # the file may declare its own delimiter (which differs from what write() will use: blanks)
    dlm = rng.choice(["", "", "COMMA", "TAB"])
    sep = {"": " ", "COMMA": ",", "TAB": "\t"}[dlm]
    lines = ["~Version", "VERS. 2.0 : v", "WRAP. NO : w"] + (["DLM. %s : delimiter" % dlm] if dlm else []) + ["~Well",
             "STRT.M %r : start" % float(idx[0]), "STOP.M %r : stop" % float(stop),
             # (sometimes a STEP item without unit and value: what irregular or single-sample files carry)
             ("STEP.M %r : step" % float(step)) if rng.random() < 0.7 else "STEP.  : step",
             "NULL. -999.25 : null", "WELL. W-2 : well", "FLD.u  : empty with unit", "~Curves",
             "DEPT.M : depth", "GR.gAPI : gamma", "GR. : again", "~Params", "BHT.degC  : empty", "MUD. x : mud",
             "~Other", "some text", "~ASCII"]
    for i in range(len(idx)):
        lines.append(sep.join("%r" % float(x) for x in (idx[i], gr[i], gr2[i])))
    return lasio.read("\n".join(lines) + "\n", mnemonic_case=rng.choice(["upper", "preserve"]))


def do_edit(las, what, rng):
    if what == "index":
        how = rng.choice(["shift", "inplace", "replace", "tiny_shift", "tiny_first", "tiny_last", "tiny_last", "interior", "interior"])
        if how == "interior" and len(las.curves[0].data) < 3:
            how = "tiny_first"
        if how == "interior":
            # only the second sample moves: first and last stay, the first increment (STEP) changes
            las.curves[0].data[1] += (las.curves[0].data[2] - las.curves[0].data[1]) * 0.4
            return
        if how.startswith("tiny"):
            # edits far below the magnitude of the values but well above the printed precision
            delta = rng.choice([0.01, 0.001, 0.0001])
            d = las.curves[0].data
            if how == "tiny_shift":
                las.curves[0].data = d + delta
            elif how == "tiny_first":
                d[0] += delta
            else:
                d[-1] += delta
        elif how == "shift":
            las.curves[0].data = las.curves[0].data + 0.5
        elif how == "inplace":
            las.curves[0].data[0] -= 0.25
        else:
            d = las.curves[0].data
            las.curves[0].data = np.array([d[0] + 2 * i for i in range(len(d))]) + 1.0
    elif what == "other":
        d = las.curves[1].data
        d[-1] = d[-1] + 1.5 if rng.random() < 0.7 else np.nan
    else:
        if rng.random() < 0.5:
            las.well["WELL"].value = "edited"
        else:
            las.params.append(HeaderItem("NEWP", "u", "", "added, empty with unit"))


def decimals(fmt):
    m = re.match(r"%\.(\d+)f$", fmt)
    return int(m.group(1)) if m else 5


def classify_output(text, opts):
    """STRT/STOP/STEP of the written text against its own data section (the projection's numeric part)."""
    try:
        back = lasio.read(text, engine="normal")
    except Exception as e:
        return {"strt": "UNREADABLE", "stop": "UNREADABLE", "step": type(e).__name__, "units": False}
    idx = back.index
    fmt0 = (opts.get("column_fmt") or {}).get(0, opts.get("fmt", "%.5f"))
    tol = 0.5 * 10.0 ** (-min(5, decimals(fmt0))) * 1.0000001 + 1e-12

    def num(x):
        try:
            return float(x)
        except (TypeError, ValueError):
            return None
    w = back.well
    strt, stop, step = num(w["STRT"].value), num(w["STOP"].value), num(w["STEP"].value)
    out = {}
    out["strt"] = "FIRST" if strt is not None and len(idx) and abs(strt - idx[0]) <= tol else "OTHER"
    out["stop"] = "LAST" if stop is not None and len(idx) and abs(stop - idx[-1]) <= tol else "OTHER"
    if len(idx) < 2:
        out["step"] = "NA"
    else:
        out["step"] = "STEP1" if step is not None and abs(step - (idx[1] - idx[0])) <= 2 * tol else "OTHER"
    units = {str(w["STRT"].unit), str(w["STOP"].unit), str(w["STEP"].unit), str(back.curves[0].unit)}
    out["units"] = len(units) == 1
    return out


def do_write(las, optname):
    opts = OPTS[optname]
    pre = snapshot(las)
    s = io.StringIO()
    exc = ""
    try:
        las.write(s, **{k: (dict(v) if isinstance(v, dict) else v) for k, v in opts.items()})
    except Exception as e:
        exc = type(e).__name__
    text = s.getvalue()
    post = snapshot(las)
    wrap = opts.get("wrap")
    return {"op": "write", "sig": optname, "wrap": "none" if wrap is None else str(wrap).lower(), "pre": pre, "post": post,
            "exc": exc, "text": hashlib.sha1(text.encode("utf-8")).hexdigest()[:16],
            "out": classify_output(text, opts) if not exc else {"strt": "EXC", "stop": "EXC", "step": exc, "units": False}}


def run_history(hist, rng):
    """hist: list of model events (origin, edit, write).  Returns the logged trace."""
    tr = []
    las = None
    for e in hist:
        if e["op"] == "origin":
            las = make_origin(e["kind"], e["shape"], rng)
            tr.append({"op": "origin", "kind": e["kind"], "shape": e["shape"], "snap": snapshot(las)})
        elif e["op"] == "edit":
            do_edit(las, e["what"], rng)
            tr.append({"op": "edit", "what": e["what"], "snap": snapshot(las)})
        else:
            tr.append(do_write(las, e["opts"]))
    return tr


def histories_from_tlc(ctx, shapes, optsets, maxops):
    cfg = ("SPECIFICATION Spec\nCONSTANTS\n  Shapes = {%s}\n  OptSets = {%s}\n  MaxOps = %d\n  Emit = TRUE\n"
           "ACTION_CONSTRAINT EmitEdge\nINVARIANT TruthfulWhenDemanded\nCHECK_DEADLOCK FALSE\n"
           % (", ".join('"%s"' % s for s in shapes), ", ".join('"%s"' % o for o in optsets), maxops))
    r = ctx.model_check("WriteAlgo", cfg, label="WriteAlgo: refresh decision implies truthfulness when demanded", workers=4)
    edges = {}
    for ed in r.printed_json():
        edges[json.dumps(ed, sort_keys=True)] = ed
    edges = [edges[k] for k in sorted(edges)]
    succ = {}
    key = lambda st: json.dumps(st, sort_keys=True)
    for ed in edges:
        succ.setdefault(key(ed["pre"]), []).append(ed)
    init = [ed["pre"] for ed in edges if ed["pre"]["origin"] == "none"][0]
    # all histories = all paths in the (acyclic, n strictly increases) graph
    hists = []

    def walk(st, acc):
        for ed in succ.get(key(st), ()):
            h = acc + [ed["e"]]
            if ed["e"]["op"] == "write":
                hists.append(h)
            walk(ed["post"], h)
    walk(init, [])
    return hists, len(edges)
