"""Copy confirmed seeded mutations from /tmp/seed-inbox + /tmp/confirm into /verif/seeded/<id>/ with meta.json."""
import json
import os
import re
import shutil

BASE = json.load(open("/root/.vp/BASELINE.json"))
ALWAYS = set(BASE["always_fail"])


def norm(fail_tokens):
    out = set()
    for t in fail_tokens:
        if t == "FAILED":
            continue
        f, name = t.split("::", 1)
        out.add(f[:-3].replace("/", ".") + "::" + name)
    return out


def main():
    kept = []
    for fn in sorted(os.listdir("/tmp/confirm")):
        if not fn.endswith(".json"):
            continue
        d = json.load(open("/tmp/confirm/" + fn))
        sid = d["id"]
        failed = norm(d["failed"].split())
        m = re.search(r"(\d+) failed, (\d+) passed", d["suite"])
        ok = (d["applied"] == 1 and d["demo_unchanged_exit"] == 0 and d["demo_mutated_exit"] != 0 and m
              and int(m.group(2)) == 254 and failed == ALWAYS)
        if not ok:
            print("NOT CONFIRMED", sid, d, sorted(failed ^ ALWAYS))
            continue
        dst = "/verif/seeded/" + sid
        os.makedirs(dst, exist_ok=True)
        for f in ("patch.diff", "demo.py", "notes.md"):
            shutil.copy(os.path.join("/tmp/seed-inbox", sid, f), os.path.join(dst, f))
        notes = open(os.path.join(dst, "notes.md")).read()
        meta_path = os.path.join(dst, "meta.json")
        meta = json.load(open(meta_path)) if os.path.exists(meta_path) else {}
        meta.update({
            "id": sid,
            "property": sid.split("-")[0],
            "source": "independent sub-agent given only the property text and a scratch worktree of /repo",
            "needs_to_manifest": notes.strip(),
            "confirmed": {
                "how": "harness/confirm_seed.sh in a fresh scratch worktree of /repo HEAD: demo on unchanged tree, git apply, "
                       "demo on mutated tree, full test suite on mutated tree (pytest -o addopts=''), worktree removed",
                "patch_applies": True,
                "demo_exit_unchanged": d["demo_unchanged_exit"],
                "demo_exit_mutated": d["demo_mutated_exit"],
                "suite_with_patch": d["suite"].strip(" ="),
                "suite_failures_equal_baseline_always_fail": True,
            },
        })
        meta.setdefault("detected_by", {})
        json.dump(meta, open(meta_path, "w"), indent=1)
        kept.append(sid)
    print("kept", len(kept), kept)


if __name__ == "__main__":
    main()
