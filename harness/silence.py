"""Behaviour-preserving refactorings must raise no alarm: run every quick check against each patch in mutants/silent/.
usage: python -m harness.silence [patch names...]   -> writes mutants/silent/RESULTS.json"""
import glob
import json
import os
import re
import subprocess
import sys
from concurrent.futures import ThreadPoolExecutor

ALL = ["C%02d" % i for i in range(1, 21)]


def one(path):
    p = subprocess.run([sys.executable, "-m", "harness.mutant", path] + ALL, cwd="/verif", stdout=subprocess.PIPE,
                       stderr=subprocess.STDOUT, universal_newlines=True, timeout=7200)
    res = {}
    for line in p.stdout.splitlines():
        m = re.match(r"^(C\d+) exit=(\d+) ?(.*)$", line)
        if m:
            res[m.group(1)] = {"exit": int(m.group(2)), "detail": m.group(3)[:300] if m.group(2) != "0" and "VIOLATION" in m.group(3) else ""}
    return os.path.basename(path), res


def main():
    names = sys.argv[1:]
    paths = sorted(glob.glob("/verif/mutants/silent/*.diff"))
    if names:
        paths = [p for p in paths if any(n in p for n in names)]
    out_path = "/verif/mutants/silent/RESULTS.json"
    results = json.load(open(out_path)) if os.path.exists(out_path) else {}
    with ThreadPoolExecutor(max_workers=3) as ex:
        for name, res in ex.map(one, paths):
            alarms = {k: v for k, v in res.items() if v["exit"] != 0}
            results[name] = {"checks_run": sorted(res), "alarms": alarms, "applies": bool(res)}
            # a patch that no longer applies ran nothing: that is not silence
            print(name, "DOES NOT APPLY (nothing run)" if not res else "SILENT" if not alarms else "ALARMS %s" % alarms)
            sys.stdout.flush()
            json.dump(results, open(out_path, "w"), indent=1)


if __name__ == "__main__":
    main()
