"""Abstract LAS texts (LasRead.tla) <-> concrete text and real lasio results."""
import io
import json
import math
import re

import numpy as np

from . import core, tlc

import lasio  # noqa: E402
from lasio import exceptions as lasexc

NULL1 = -999.25
NULL_SPELL = ["-999.25", "-999.2500", "-9.9925E2", "-999.250", "-0.99925e+3"]
NEAR_SPELL = ["-999.2501", "-999.24", "-999.26", "-999.249999"]
# item id (m, v) -> (mnemonic, unit, value text, description); value text is what str(item.value) must give back
ITEMS = {
    ("VERS", "2.0"): ("VERS", "", "2.0", "version two"),
    ("VERS", "1.2"): ("VERS", "", "1.2", "version one-two"),
    ("WRAP", "NO"): ("WRAP", "", "NO", "one line per step"),
    ("WRAP", "YES"): ("WRAP", "", "YES", "wrapped"),
    ("DLM", "COMMA"): ("DLM", "", "COMMA", "delimiter"),
    ("DLM", "TAB"): ("DLM", "", "TAB", "delimiter"),
    ("DLM", "SPACE"): ("DLM", "", "SPACE", "delimiter"),
    ("STRT", "s1"): ("STRT", "M", "101.25", "start"),
    ("NULL", "null1"): ("NULL", "", "-999.25", "null value"),
    ("NULL", "null2"): ("NULL", "", "102.25", "a NULL that is not ~Well's"),      # equals cell (1,2)
    ("WELL", "w1"): ("WELL", "", "WELL-1", "well name"),
    ("P1", "p"): ("P1", "degC", "7", "first parameter"),
    ("P2", "p"): ("P2", "", "13:45:00", "time of day"),
    ("LOC", "l"): ("LOC", "", "somewhere", ""),
    ("FLD", "f"): ("FLD", "", "WILDCAT", ""),
    ("XA", "x"): ("XA", "u", "hello", "custom item"),
    ("ZZ", "x"): ("ZZ", "", "1", "neutral"),
}
for _n in ("DEPT", "GR", "RHOB", "NPHI", "DT", "CALI"):
    ITEMS[(_n, "c")] = (_n, "M" if _n == "DEPT" else "u", "", _n.lower() + " curve")
REV = {}
for _k, (_m, _u, _v, _d) in ITEMS.items():
    REV[(_m, _u, _v, _d)] = _k

TITLES = {
    "V": ["~V", "~Version", "~VERSION INFORMATION", "~v", "~version", "~version information section", "~Version_Information",
          "~VERSION INFORMATION (LAS_2.0)"],
    "W": ["~W", "~Well", "~WELL INFORMATION BLOCK", "~w", "~well", "~well information", "~Well_Information", "~W {site 1} 100% \\d"],
    "C": ["~C", "~Curve", "~CURVE INFORMATION", "~c", "~curve", "~curve information"],
    "P": ["~P", "~Parameter", "~PARAMETER INFORMATION", "~p", "~params", "~parameter information", "~Parameter {run 1}",
          "~P %s %(x)d {0}"],
    "O": ["~O", "~Other", "~OTHER INFORMATION", "~o", "~other", "~other information", "~Other_Information"],
    "A": ["~A", "~ASCII", "~ASCII LOG DATA", "~a", "~ascii", "~a  DEPT  GR", "~A  DEPT" + "        CURVE%02d" * 12 % tuple(range(12))],
    # (title lines longer than 80 and 120 characters included)
    "X1": ["~Tool", "~TOOL SETUP", "~tool", "~tool setup section", "~Tool {setup} %d", "~Tool " + "setup section of the logging tool " * 3 + "one"],
    "X2": ["~Remarks", "~REMARKS AREA", "~remarks", "~remarks area", "~Remarks " + "-" * 130 + " end"],
}
CUSTOM_KEY = {"tool": "X1", "remarks": "X2"}
# how the curve ids are spelled: presentation, except that the names must stay distinguishable
CURVE_IDS = ["DEPT", "GR", "RHOB", "NPHI", "DT", "CALI"]
NAME_STYLES = {
    "std": {n: n for n in CURVE_IDS},
    "numeric": dict(zip(CURVE_IDS, ["TIME", "DEPT", "1", "2", "3", "0"])),      # integer-like mnemonics, none equal to its own position
    "lower": dict(zip(CURVE_IDS, ["Dept", "gr", "RhoB", "nphi", "dt", "Cali"])),
}
JUNK = {9: "J . 18446744073709551616 : integer beyond 64 bits", 10: "X.98765432109876543210987654321098765432109876543210",
        11: "Q. 1e999 : overflowing float", 12: "N. nan : not a number", 13: "QQ.ZZ 77 : junk description that parses",
        14: "H. 0x1F : hex", 15: "K. 1_000 : underscore", 16: "recovery 100% : full", 17: "rate %d {0} %(x)s. 5 : format characters",
        1: "this line has neither delimiter", 2: "!!!! ???? ----", 3: "\"quoted junk\" 'more' without a period",
        4: "x" * 300, 5: "   trailing and leading blanks   ", 6: "(((( ]]]] ((((", 7: "12345 67890", 8: "=+=+=+=+="}
FREE = {1: "free text line one", 2: "second line, with: punctuation. and a period"}
FIN_SPELL = [lambda x: repr(x), lambda x: "%.2f" % x, lambda x: "%.5f" % x, lambda x: "%.8E" % x, lambda x: ("+%r" % x) if x >= 0 else repr(x),
             lambda x: "%.9e" % x,
             # negative exponents (the scaled mantissas are exactly representable, so the literal denotes the same float)
             lambda x: "%rE-2" % (x * 100.0), lambda x: "%re-01" % (x * 10.0)]


def cell_value(cid):
    return cid + 0.25           # cid = row * 100 + column


NULL_STYLES = {
    "std": (-999.25, ["-999.25", "-999.2500", "-9.9925E2", "-999.250", "-0.99925e+3", "-0999.25", "-00999.250"], ["-999.2501", "-999.24", "-999.26", "-999.249999"]),
    "int": (-9999, ["-9999", "-9999.0", "-9.999E3", "-9999.00", "-9999.", "-09999", "-9999.E0"], ["-9999.01", "-9998.99", "-9998"]),
    "zero": (0, ["0", "0.0", "0.000", "-0.0", "0E0", "0.", "00", ".0"], ["0.01", "-0.01", "0.001"]),
    "pos": (999, ["999", "999.00", "9.99e2", "+999", "999.", "0999", "+999.0"], ["999.01", "998.99"]),
    "large": (1e30, ["1e30", "1.0E+30", "1000000000000000019884624838656"], ["1.0000001e30", "9.99999e29"]),
    "five": (5, ["5", "5.0", "5.00", "0.5e1", "5.", "05", "+5"], ["5.01", "4.99"]),
}


def version_of(text):
    sec = None
    for ln in text:
        if ln["k"] == "title":
            sec = ln["sec"]
        elif ln["k"] == "item" and ln["m"] == "VERS" and sec == "V":
            return ln["v"]
    return "2.0"


def concretise(text, rng, style=None):
    """Spell an abstract text.  All presentation choices come from rng (or are fixed when style is given)."""
    style = style or {}
    names = NAME_STYLES[style.get("names", "std")]
    nullv, null_spell, near_spell = NULL_STYLES[style.get("null", "std")]
    vers = version_of(text)
    cursec = None
    spell_seed = style.get("spell_seed")

    def pick(options, key):
        """Number spellings: drawn from rng, or (metamorphic pairs) fixed by (spell_seed, key) so that both texts agree."""
        if spell_seed is None:
            return rng.choice(options)
        import zlib
        return options[zlib.crc32(repr((spell_seed, key)).encode()) % len(options)]
    dlm = "SPACE"
    for ln in text:
        if ln["k"] == "item" and ln["m"] == "DLM":
            dlm = ln["v"]
            break
    # the DLM that counts is ~V's; the concretiser must follow the model here: find it in section V only
    dlm = "SPACE"
    sec = None
    for ln in text:
        if ln["k"] == "title":
            sec = ln["sec"]
        elif ln["k"] == "item" and ln["m"] == "DLM" and sec == "V":
            dlm = ln["v"]
    nl = style.get("nl") or rng.choice(["\n", "\r\n"])
    final_nl = style.get("final_nl", rng.random() < 0.7)
    # text cells: identifiers, or date-like tokens digit-hyphen-digit (one style per file: lasio documents that it keeps such
    # tokens whole when every sampled data line contains a hyphen)
    textstyle = pick(["t", "t", "date"], "textstyle")
    out = []
    for ln in text:
        k = ln["k"]
        if k == "title":
            cursec = ln["sec"]
            opts = TITLES[ln["sec"]]
            # blanks around a title line are presentation (not before the very first line: a string input is recognised by it)
            ind = "" if (not out or style.get("plain")) else rng.choice(["", "", "", " ", "   ", "\t"])
            out.append(ind + (style.get("title", {}).get(ln["sec"]) or rng.choice(opts)) + rng.choice(["", "", " ", "  "]))
        elif k == "item":
            m, u, v, d = ITEMS[(ln["m"], ln["v"])]
            if ln["v"] == "c":
                m = names[m]
            if (ln["m"], ln["v"]) == ("NULL", "null1"):
                v = pick(null_spell, "nullitem")
            pad = lambda: rng.choice(["", " ", "   ", "\t"]) if not style.get("plain") else " "
            lead = rng.choice(["", " "]) if not style.get("plain") else ""
            # LAS 1.2 ~Well lines other than STRT/STOP/STEP/NULL carry  DESCRIPTION : VALUE
            a, b = v, d
            if vers == "1.2" and cursec == "W" and ln["m"] not in ("STRT", "STOP", "STEP", "NULL"):
                a, b = d, v
            forms = ["full"]
            if not style.get("plain") and u == "" and d == "" and vers != "1.2" and ":" not in v and "." not in v:
                forms += ["noperiod", "nocolon"]         # the documented special forms NAME : VALUE and MNEM.UNIT VALUE
            form = rng.choice(forms)
            if form == "noperiod":
                out.append("%s%s%s:%s%s" % (lead, m, pad(), pad(), v))
            elif form == "nocolon":
                out.append("%s%s.%s%s%s" % (lead, m, u, rng.choice([" ", "   ", "\t"]), v))
            else:
                out.append("%s%s.%s%s%s%s:%s%s" % (lead, m, u, rng.choice([" ", "   ", "\t"]), a, pad(), pad(), b))
        elif k == "free":
            out.append(FREE[ln["id"]])
        elif k == "blank":
            out.append(rng.choice(["", "   ", "\t"]))
        elif k == "comment":
            out.append(rng.choice(["# a comment", "#", "  # indented comment 1 2 3", "#1 2 3", "# dashed - comment 1-2", "#--- 3-4 ---"]))
        elif k == "junk":
            out.append(JUNK[ln["id"]])
        elif k == "data":
            toks = []
            for cell in ln["cells"]:
                cls = cell["cls"]
                if cls == "FIN":
                    x = cell_value(cell["id"]) * (-1.0 if style.get("neg") else 1.0)
                    toks.append(pick(FIN_SPELL, cell["id"])(x))
                elif cls == "ZERO":
                    toks.append(pick(["0", "0.0", "0.000", "-0.0", "0E0", "+0", "00"], cell["id"]))
                elif cls == "NULLEQ":
                    toks.append(pick(null_spell, cell["id"]))
                elif cls == "NEAR":
                    toks.append(pick(near_spell, cell["id"]))
                else:
                    # text values: plain, or quoted with an embedded blank (one value for the quote-aware tokeniser)
                    if textstyle == "date":
                        q = "%d-05-22"
                    else:
                        q = pick(["t%d", "t%d", "\"t %d\"", "'t %d'"], ("text", cell["id"])) if dlm == "SPACE" else "t%d"
                    toks.append(q % cell["id"])
            if dlm == "COMMA":
                sep = rng.choice([",", ", ", " , "])
            elif dlm == "TAB":
                sep = rng.choice(["\t", "\t", " \t", "\t ", " \t ", "\t\t"])       # with or without padding blanks; doubled
            elif style.get("notabs"):
                sep = rng.choice([" ", "   ", "  "])
            else:
                sep = rng.choice([" ", "   ", "\t", " \t "])
            lead = rng.choice(["", " ", "    "]) if dlm == "SPACE" else rng.choice(["", "", " "] + (["\t"] if dlm == "TAB" else []))
            trail = rng.choice(["", " ", "  "]) if dlm == "SPACE" else rng.choice(["", "", " "] + (["\t"] if dlm == "TAB" else []))
            if dlm != "SPACE" and any(cell["cls"] == "TEXT" for cell in ln["cells"]):
                # recorded finding D34: lasio keeps the padding blanks of TEXT values under COMMA / TAB (the repository's own
                # test-suite pins that).  Text rows are therefore padded only by the dedicated probe of C09 (style "padtext").
                sep = ("," if dlm == "COMMA" else "\t") if not style.get("padtext") else (" , " if dlm == "COMMA" else " \t ")
                lead = trail = ""
            out.append(lead + sep.join(toks) + trail)
        else:
            raise tlc.MachineryError("unknown line kind %r" % k)
    s = nl.join(out)
    if final_nl or (out and out[-1] == ""):      # an empty last line exists only if it is terminated
        s += nl
    return s


_NULLV = [NULL1, set()]


def project_cell(x):
    if isinstance(x, (float, np.floating)):
        if math.isnan(x):
            return -1
        if x == _NULLV[0]:
            return -2
        if x in _NULLV[1]:
            return -3
        if x == 0:
            return -4
        y = abs(x) - 0.25          # (the "neg" style writes every value with a minus sign: a hyphen on every line)
        if y == int(y) and 100 <= y < 1000000 and 1 <= int(y) % 100 <= 99:
            return int(y)
        return -99
    if isinstance(x, (str, np.str_)):
        m = re.match(r"^t ?(\d+)$", str(x)) or re.match(r"^(\d+)-05-22$", str(x))
        if m:
            return 1000000 + int(m.group(1))
        return -98          # any other string, numeric-looking ones included ('nan', '101.25'): not a number, not a text cell
    return -97


def project(las, text, names="std", null="std", concrete=None):
    global _NAMES_BACK
    _NAMES_BACK = {v.upper(): k for k, v in NAME_STYLES[names].items()}
    _NULLV[0] = float(NULL_STYLES[null][0])
    _NULLV[1] = set(float(t) for t in NULL_STYLES[null][2])
    present = set(ln["sec"] for ln in text if ln["k"] == "title")
    names = {"V": "Version", "W": "Well", "C": "Curves", "P": "Parameter", "O": "Other"}
    res = {"header": {}, "other": [], "custom": [], "curves": [], "extra": [], "defaults_ok": True, "own_title": True}
    norm_title = lambda t: t.strip().lstrip("~").strip()
    titles = None if concrete is None else set(norm_title(t) for t in re.split(r"\r\n|\r|\n", concrete) if t.strip().startswith("~"))
    defaults = lasio.LASFile()
    for key, sec in las.sections.items():
        std = [s for s, n in names.items() if n == key]
        if std:
            s = std[0]
            if s == "O":
                if s in present:
                    lines = sec.split("\n") if sec else []
                    rev = dict((v, k) for k, v in FREE.items())
                    res["other"] = [0 if x == "" else (-1 if x.startswith("#") else rev.get(x, -9)) for x in lines]
                elif sec != "":
                    res["defaults_ok"] = False
                continue
            if s not in present:
                dflt = defaults.sections[key]
                same = [(i.original_mnemonic, str(i.unit), str(i.value), str(i.descr)) for i in list.__iter__(sec)] == \
                       [(i.original_mnemonic, str(i.unit), str(i.value), str(i.descr)) for i in list.__iter__(dflt)]
                if not same:
                    res["defaults_ok"] = False
                continue
            res["header"][key] = proj_items(sec, curves=(s == "C"))
        else:
            if isinstance(sec, str):
                res["extra"].append(key)
                continue
            ck = None
            for pref, cid in CUSTOM_KEY.items():
                if key.lower().startswith(pref):
                    ck = cid
            if ck is None or ck not in present:
                res["extra"].append(key)
            else:
                res["header"][ck] = proj_items(sec)
                res["custom"].append(ck)
                if titles is not None and norm_title(key) not in titles:
                    res["own_title"] = False          # kept, but not under its own (whole) title
    items = list(list.__iter__(las.curves))
    for c in items:
        res["curves"].append({"m": _NAMES_BACK.get(c.original_mnemonic.upper(), c.original_mnemonic),
                              "data": [project_cell(x) for x in c.data]})
    # which curve each key of the LASFile addresses (position by identity; 0 = none / not unique), and whether column j of the
    # stacked 2-D view las.data is curve j (float files only: with text columns the stacked view is a string array)
    res["keypos"], res["stack"] = [], []
    keys = las.keys()
    for j, c in enumerate(items):
        pos = 0
        if j < len(keys):
            try:
                got = las.curves[keys[j]]
                pos = ([i + 1 for i, x in enumerate(items) if x is got] or [0])[0]
            except Exception:
                pos = 0
        res["keypos"].append(pos)
    allfloat = all(np.asarray(c.data).dtype.kind == "f" for c in items)
    try:
        arr = las.data if allfloat and items else None
    except Exception:
        arr = "EXC"
    for j, c in enumerate(items):
        if arr is None:
            res["stack"].append(j + 1)
        elif isinstance(arr, str) or arr.ndim != 2 or arr.shape[1] != len(items):
            res["stack"].append(0)
        else:
            res["stack"].append(j + 1 if [project_cell(x) for x in arr[:, j]] == res["curves"][j]["data"] else 0)
    return res


_NAMES_BACK = {}
_MCASE = "upper"


def proj_items(sec, curves=False):
    from lasio.las_items import CurveItem
    out = []
    for it in list.__iter__(sec):
        o = it.original_mnemonic
        if _MCASE == "lower" and not str(it.descr).endswith(" curve"):
            o = o.upper()           # (the header mnemonics of the generated texts are all upper case)
        if curves and not isinstance(it, CurveItem):
            out.append(["?notCurveItem:" + o, "?"])
            continue
        val = it.value
        if (o, ) == ("NULL",) and isinstance(val, (int, float, np.integer, np.floating)) and not isinstance(val, bool) and float(val) == _NULLV[0]:
            val = "-999.25"       # the NULL item is spelled in many ways; numerically equal is what counts
        if str(it.descr).endswith(" curve"):
            o = _NAMES_BACK.get(o.upper(), o)
        key = (o, str(it.unit), str(val), str(it.descr))
        k = REV.get(key)
        out.append([k[0], k[1]] if k else ["?" + it.original_mnemonic, "?%s|%s|%s" % (it.unit, it.value, it.descr)])
    return out


def raw_bits(las):
    out = []
    for c in list.__iter__(las.curves):
        a = np.asarray(c.data)
        out.append((str(a.dtype), a.tobytes() if a.dtype != object else repr(a.tolist())))
    return out


def read_event(prop, inst, concrete, engines=("numpy",), extra_kw=None, names="std", null="std"):
    """Read `concrete` with real lasio and log what happened for Trace_Read."""
    text = inst["text"]
    kw = {"null_policy": inst["opts"]["null_policy"], "ignore_header_errors": bool(inst["opts"]["ihe"])}
    kw.update(extra_kw or {})
    if "mnemonic_case" not in kw:
        # the case option must not matter for anything the reader families look at (steering items are found whatever their
        # case mapping): chosen by the text itself, so that a rerun reads the same text the same way
        import zlib
        kw["mnemonic_case"] = ["upper", "lower", "preserve", "upper"][zlib.crc32(concrete.encode("utf-8")) % 4]
    global _MCASE
    _MCASE = kw["mnemonic_case"]
    ev = {"op": "read", "prop": prop, "text": text, "opts": inst["opts"], "exc": "", "excline": 0, "engines": len(engines),
          "bits_equal": True, "fastpath": []}
    results = []
    for eng in engines:
        try:
            las = lasio.read(concrete, engine=eng, **kw)
        except lasexc.LASHeaderError as e:
            ev["exc"] = "LASHeaderError"
            # "naming that line": the message quotes the line's text, or gives its (1-based) line number.
            # One abstract line = one physical line, so the index of the named line is its abstract index.
            msg = str(e)
            phys = concrete.replace("\r\n", "\n").split("\n")
            named = [i + 1 for i, ln in enumerate(phys[:len(text)]) if text[i]["k"] == "junk" and ln.strip() and ln.strip() in msg]
            if not named:
                nums = set(int(x) for x in re.findall(r"\d+", msg))
                named = [i + 1 for i in range(len(text)) if text[i]["k"] == "junk" and (i + 1) in nums]
            ev["excline"] = named[0] if named else 0
            return ev
        except Exception as e:
            ev["exc"] = type(e).__name__
            return ev
        results.append(las)
        ev["fastpath"].append(list(getattr(las, "_verif_engines", [])))
    ev["res"] = project(results[0], text, names, null, concrete)
    if len(results) == 2:
        ev["res2"] = project(results[1], text, names, null, concrete)
        ev["bits_equal"] = raw_bits(results[0]) == raw_bits(results[1])
    else:
        ev["res2"] = ev["res"]
    return ev


def instances(ctx, family, maxr, maxc, maxd, big, workers=16, timeout=3000):
    cfg = ("SPECIFICATION Spec\nCONSTANTS\n  Family = \"%s\"\n  MaxR = %d\n  MaxC = %d\n  MaxD = %d\n  Big = %s\n  Emit = TRUE\n"
           "CONSTRAINT EmitInst\nINVARIANT Legal\nINVARIANT Partition\nINVARIANT OnlyVandWsteer\nINVARIANT AlgoRefinesIntent\n"
           "CHECK_DEADLOCK FALSE\n"
           % (family, maxr, maxc, maxd, "TRUE" if big else "FALSE"))
    r = ctx.model_check("ReadInstances", cfg, label="ReadInstances family %s: LegalText, Partition, OnlyVandWsteer, LasReadAlgo refines LasRead" % family,
                        workers=workers, timeout=timeout)
    insts = r.printed_json()
    insts.sort(key=lambda i: json.dumps(i, sort_keys=True))
    return insts


def engine_drift(ctx, inst, ev, engine, meta=None):
    """Algorithm layer vs implementation: which engine produced the data (LasReadAlgo!AlgoPath vs the LASIO_VERIF hook)."""
    if engine != "numpy" or "path" not in inst or ev.get("exc") or not ev.get("fastpath"):
        return
    seen = ev["fastpath"][0]
    if not seen:
        return          # no data section was read
    ctx.extra["engine_path_compared"] = ctx.extra.get("engine_path_compared", 0) + 1
    if seen[0] != inst["path"]:
        ctx.drift.append({"tag": inst.get("tag"), "model_path": inst["path"], "impl_path": seen})


def judge(ctx, events, meta, fails):
    for tid, l, clause in fails:
        if clause.startswith("Harness."):
            raise tlc.MachineryError("harness produced an out-of-domain text: %s" % (meta[tid],))
        ev = events[tid]
        ctx.report(clause, "tag=%s exc=%s res=%s" % (meta[tid].get("tag"), ev.get("exc"), json.dumps(ev.get("res"))[:300]),
                   {"meta": meta[tid], "event": ev})
