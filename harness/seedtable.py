"""Rewrite the detection table at the end of DESIGN.md from seeded/*/meta.json."""
import json
import os

ROOT = "/verif/seeded"
BEGIN = "<!-- seed-table:begin -->"
END = "<!-- seed-table:end -->"


def main():
    rows = []
    for sid in sorted(os.listdir(ROOT)):
        m = json.load(open(os.path.join(ROOT, sid, "meta.json")))
        first = m["needs_to_manifest"].strip().splitlines()
        title = next((l.strip("# -*").strip() for l in first if l.strip()), "")[:110]
        det = "; ".join("%s (%s)" % (k, ", ".join(c.split(".", 1)[1] for c in v["clauses"][:2])) for k, v in sorted(m.get("detected_by", {}).items()))
        if m.get("superseded"):
            det = "(no longer a violation: superseded by a later repair, see meta.json)"
        rows.append("| %s | %s | %s | %s |" % (sid, title.replace("|", "/"), det or "—", ", ".join(m.get("not_detected_by", [])) or "—"))
    table = ("\n## Appendix F — seeded changes and the checks that catch them (quick tier)\n\n"
             "| id | change (first line of the author's notes) | detected by (clauses) | also run, silent |\n|---|---|---|---|\n"
             + "\n".join(rows) + "\n")
    p = "/verif/DESIGN.md"
    s = open(p).read()
    if BEGIN in s:
        s = s[:s.index(BEGIN)] + BEGIN + table + END + s[s.index(END) + len(END):]
    else:
        s = s.rstrip("\n") + "\n\n" + BEGIN + table + END + "\n"
    open(p, "w").write(s)
    print(len(rows), "rows")


if __name__ == "__main__":
    main()
