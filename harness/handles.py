"""Binding for C20: every file lasio opens is closed again (Trace_Handles.tla)."""
import builtins
import io
import os
import pathlib

from . import core, tlc

import lasio  # noqa: E402

_real_open = builtins.open


class Injected(OSError):
    pass


class Tracker(object):
    def __init__(self, fault_at=None):
        self.events = []
        self.proxies = []
        self.n_ops = 0
        self.fault_at = fault_at
        self.active = False

    def op(self, hid, name):
        """Count one low-level operation; raise the injected error if it is the chosen one."""
        self.n_ops += 1
        if self.fault_at is not None and self.n_ops == self.fault_at:
            self.events.append({"op": "fault", "h": hid, "what": name, "k": self.n_ops})
            raise Injected("injected I/O error at operation %d (%s)" % (self.n_ops, name))
        self.events.append({"op": "io", "h": hid, "what": name, "k": self.n_ops})

    def open(self, *a, **kw):
        if not self.active:
            return _real_open(*a, **kw)
        hid = len(self.proxies) + 1
        self.op(hid, "open")
        real = _real_open(*a, **kw)
        p = Proxy(self, hid, real)
        self.proxies.append(p)
        self.events.append({"op": "open", "h": hid})
        return p


class Proxy(object):
    """File object wrapper that reports every operation to the tracker."""

    def __init__(self, tr, hid, real):
        self.__dict__["_tr"] = tr
        self.__dict__["_hid"] = hid
        self.__dict__["_real"] = real

    def _do(self, name, *a, **kw):
        self._tr.op(self._hid, name)
        return getattr(self._real, name)(*a, **kw)

    def read(self, *a):
        return self._do("read", *a)

    def readline(self, *a):
        return self._do("readline", *a)

    def readlines(self, *a):
        return self._do("readlines", *a)

    def seek(self, *a):
        return self._do("seek", *a)

    def tell(self):
        return self._do("tell")

    def write(self, *a):
        return self._do("write", *a)

    def writelines(self, *a):
        return self._do("writelines", *a)

    def flush(self):
        return self._do("flush")          # (an explicit flush is a point where buffered output can fail, like any write)

    def truncate(self, *a):
        return self._do("truncate", *a)

    def close(self):
        self._tr.events.append({"op": "close", "h": self._hid})
        return self._real.close()

    @property
    def closed(self):
        return self._real.closed

    def __iter__(self):
        return self

    def __next__(self):
        return self._do("__next__")

    def __enter__(self):
        return self

    def __exit__(self, *a):
        self.close()
        return False

    def __getattr__(self, name):
        return getattr(self._real, name)


def holds_open_handle(obj):
    if obj is None:
        return False
    for v in list(getattr(obj, "__dict__", {}).values()):
        if isinstance(v, Proxy) and not v.closed:
            return True
        if isinstance(v, io.IOBase) and not v.closed:
            return True
    return False


def run_call(kind, make_call, fault_at=None, callerfile=None):
    """Run one public call under the tracker.  make_call(tracker) performs it and returns the LASFile involved.
    Returns (trace, n_ops, exception or None)."""
    tr = Tracker(fault_at)
    callerfiles = []
    if callerfile is not None:
        callerfiles = [100]
    tr.events.append({"op": "begin", "kind": kind, "callerfiles": callerfiles})
    builtins.open = tr.open
    io.open = tr.open
    exc = None
    obj = None
    tr.active = True
    try:
        try:
            obj = make_call()
        except BaseException as e:      # the exception object is kept alive on purpose (its traceback pins the frames)
            exc = e
            obj = getattr(make_call, "las", None)
    finally:
        tr.active = False
        builtins.open = _real_open
        io.open = _real_open
    really_open = [p._hid for p in tr.proxies if not p.closed]
    if callerfile is not None:
        if not callerfile.closed:
            really_open.append(100)
    # a caller-supplied file closed by lasio shows up as a close event in the spec's eyes
    if callerfile is not None and callerfile.closed:
        tr.events.append({"op": "close", "h": 100})
    tr.events.append({"op": "end", "kind": kind, "result": "raise" if exc is not None else "return",
                      "exc": type(exc).__name__ if exc is not None else "",
                      "objholds": holds_open_handle(obj), "really_open": sorted(really_open)})
    return tr.events, tr.n_ops, exc
