"""Binding of Curves.tla / CurvesAlgo.tla to real lasio.LASFile objects (property C14)."""
import json
from collections import deque

import numpy as np

from . import core, tlc

import lasio  # noqa: E402
from lasio.las_items import CurveItem

NROWS = 2
META = {0: ("", "", ""), 1: ("u1", "", ""), 7: ("u1", "d1", "v1")}


_POOL = {}


def arr(a):
    """The array with identity a (content encodes the identity).  The SAME ndarray object is handed out every time within one
    world, as a caller who builds several curves / files from one array would: lasio must never write into it."""
    if a not in _POOL:
        _POOL[a] = np.array([float(a), float(a) + 0.5])
    return _POOL[a]


def arr_id(x):
    x = np.asarray(x)
    if x.shape != (NROWS,):
        return -1
    try:
        a = float(x[0])
        if a == int(a) and float(x[1]) == a + 0.5:
            return int(a)
    except (TypeError, ValueError):
        pass
    return -1


class World(object):
    """Two real LASFile objects plus the identity registry."""

    def __init__(self, read_case=None):
        _POOL.clear()
        self.ci = read_case in ("upper", "lower")        # such sections compare names case-insensitively
        if read_case is None:
            self.las = [lasio.LASFile(), lasio.LASFile()]
        else:
            txt = ("~V\nVERS. 2.0:\nWRAP. NO:\n~W\nNULL. -999.25:\n~C\nDEPT.M:\nGR.:\n~A\n1 1\n1.5 1.5\n")
            self.las = [lasio.read(txt, mnemonic_case=read_case), lasio.read(txt, mnemonic_case=read_case)]
        self.ids = {}
        self.keep = []
        self.next_id = 1
        self.project()

    def ident(self, item):
        k = id(item)
        if k not in self.ids:
            self.ids[k] = self.next_id
            self.keep.append(item)
            self.next_id += 1
        return self.ids[k]

    def fresh(self, k=1):
        out = list(range(self.next_id, self.next_id + k))
        return out

    def register(self, item, nid):
        self.ids[id(item)] = nid
        self.keep.append(item)
        self.next_id = max(self.next_id, nid + 1)

    def project_one(self, las):
        out = []
        for c in list.__iter__(las.curves):
            meta = (c.unit, c.descr, c.value)
            m = [k for k, v in META.items() if v == meta]
            out.append({"id": self.ident(c), "o": c.original_mnemonic, "s": c.mnemonic,
                        "m": m[0] if m else -1, "a": arr_id(c.data)})
            if getattr(self, "ci", False):
                o = c.original_mnemonic
                out[-1]["of"] = ("UNKNOWN" if o.strip() == "" else o).upper()      # comparison key of the name (Curves!OF)
        return out

    def project(self):
        return [self.project_one(l) for l in self.las]

    def views(self, las):
        n = len(las.curves)
        v = {"keys": list(las.keys()), "values": [arr_id(x) for x in las.values()],
             "items": [[k, arr_id(x)] for k, x in las.items()]}
        try:
            v["index"] = arr_id(las.index)
        except IndexError:
            v["index"] = 0
        try:
            d = las.data
            v["data"] = [arr_id(d[:, j]) for j in range(d.shape[1])] if d.shape[0] == NROWS else [-1] * d.shape[1]
        except ValueError:
            v["data"] = []
        v["byint"] = []
        for i in range(-n - 1, n + 1):
            try:
                v["byint"].append({"i": i, "a": arr_id(las[i])})
            except IndexError:
                v["byint"].append({"i": i, "a": 0})
        v["byname"] = []
        for k in list(dict.fromkeys(list(las.keys()) + ["Z", "A", "B", "UNKNOWN"])):
            gc = las.get_curve(k)
            try:
                v["byname"].append({"k": k, "a": arr_id(las[k]), "gc": 0 if gc is None else arr_id(gc.data)})
            except KeyError:
                v["byname"].append({"k": k, "a": 0, "gc": 0 if gc is None else arr_id(gc.data)})
        return v

    def snapshot(self, ev):
        ev["post"] = self.project()
        ev["views"] = [self.views(l) for l in self.las]
        return ev

    def apply(self, e):
        op = e["op"]
        t = e["t"]
        las = self.las[t - 1]
        ev = {k: v for k, v in e.items() if k not in ("nid", "nids", "exc")}
        ev["exc"] = ""
        try:
            self.calls = getattr(self, "calls", 0) + 1
            alt = self.calls % 2 == 0          # every second call uses the sibling API that must mean the same
            if op == "append_curve":
                nid = self.fresh()[0]
                ev["nid"] = nid
                if alt:
                    las.append_curve_item(CurveItem(e["n"], data=arr(e["a"])))
                else:
                    las.append_curve(e["n"], arr(e["a"]))
                self.register(las.curves[-1], nid)
            elif op == "insert_curve":
                nid = self.fresh()[0]
                ev["nid"] = nid
                before = set(id(c) for c in list.__iter__(las.curves))
                if alt:
                    las.insert_curve_item(e["i"], CurveItem(e["n"], data=arr(e["a"])))
                else:
                    las.insert_curve(e["i"], e["n"], arr(e["a"]))
                for c in list.__iter__(las.curves):
                    if id(c) not in before:
                        self.register(c, nid)
            elif op == "delete_ix":
                las.delete_curve(ix=e["i"])
            elif op == "delete_mn":
                las.delete_curve(mnemonic=e["k"])
            elif op in ("update_mn", "update_ix"):
                kw = {}
                if e["a"]:
                    kw["data"] = arr(e["a"])
                if e["m"] == 8:           # falsy new metadata must be applied too
                    kw.update(unit="", descr="", value="")
                elif e["m"]:
                    u, d, v = META[e["m"]]
                    kw["unit"] = u
                    if e["m"] == 7:
                        kw["descr"] = d
                        kw["value"] = v
                if op == "update_mn":
                    las.update_curve(mnemonic=e["k"], **kw)
                else:
                    las.update_curve(ix=e["i"], **kw)
            elif op == "replace_item":
                item = CurveItem(e["n"], data=arr(e["a"]))
                nid = self.fresh()[0]
                ev["nid"] = nid
                self.register(item, nid)
                las.replace_curve_item(e["i"], item)
            elif op == "setitem_arr":
                nid = self.fresh()[0]
                ev["nid"] = nid
                before = set(id(c) for c in list.__iter__(las.curves))
                las[e["k"]] = arr(e["a"])
                for c in list.__iter__(las.curves):
                    if id(c) not in before:
                        self.register(c, nid)
            elif op == "setitem_item":
                item = CurveItem(e["n"], data=arr(e["a"]))
                nid = self.fresh()[0]
                ev["nid"] = nid
                self.register(item, nid)
                las[e["k"]] = item
            elif op == "set_data":
                cols = e["cols"]
                A = np.column_stack([arr(c) for c in cols])
                n = len(las.curves)
                nids = self.fresh(max(0, len(cols) - n))
                ev["nids"] = nids
                before = set(id(c) for c in list.__iter__(las.curves))
                names = list(e["names"]) if e["names"] else None
                if alt and names is None and not e["truncate"]:
                    las.data = A                  # the property setter
                else:
                    las.set_data(A, names=names, truncate=bool(e["truncate"]))
                new = [c for c in list.__iter__(las.curves) if id(c) not in before]
                for c, nid in zip(new, nids):
                    self.register(c, nid)
            else:
                raise tlc.MachineryError("unknown op %r" % op)
        except (KeyError, IndexError, ValueError) as x:
            ev["exc"] = type(x).__name__
        return self.snapshot(ev)


def strip(objs):
    return tuple(tuple((c["o"], c["s"], c["m"], c["a"]) for c in L) for L in objs)


def edges_from_tlc(ctx, names, maxlen1, emit=True, workers=16, timeout=3000):
    cfg = ("SPECIFICATION Spec\nCONSTANTS\n  Names = {%s}\n  MaxLen1 = %d\n  MaxLen2 = 1\n  Emit = %s\n"
           "ACTION_CONSTRAINT EmitEdge\nPROPERTY Refines\nVIEW View\nCHECK_DEADLOCK FALSE\n"
           % (", ".join(json.dumps(n) for n in names), maxlen1, "TRUE" if emit else "FALSE"))
    r = ctx.model_check("CurvesAlgo", cfg, label="CurvesAlgo refines Curves (MaxLen1=%d)" % maxlen1,
                        workers=workers, timeout=timeout)
    if not emit:
        return [], r
    edges = r.printed_json()
    if len(edges) != r.generated - 1:
        raise tlc.MachineryError("edge dump incomplete: %d printed, %d generated" % (len(edges), r.generated))
    edges.sort(key=lambda ed: json.dumps(ed, sort_keys=True))
    return edges, r


def replay_edges(ctx, edges, limit, rng):
    succ = {}
    for ed in edges:
        succ.setdefault(strip(ed["pre"]), []).append(ed)
    path = {((), ()): []}
    q = deque([((), ())])
    while q:
        s = q.popleft()
        for ed in succ.get(s, ()):
            t = strip(ed["post"])
            if t not in path:
                path[t] = path[s] + [ed["e"]]
                q.append(t)
    order = list(range(len(edges)))
    if limit is not None and len(order) > limit:
        rng.shuffle(order)
        order = sorted(order[:limit])
    traces, meta = [], []
    for ix in order:
        ed = edges[ix]
        pre = strip(ed["pre"])
        w = World()
        for e in path[pre]:
            w.apply(e)
        tr = [w.snapshot({"op": "init", "exc": ""})]
        ev = w.apply(ed["e"])
        tr.append(ev)
        ctx.evaluations += 1
        traces.append(tr)
        meta.append({"path": path[pre], "e": ed["e"]})
        if strip(tr[0]["post"]) != pre or strip(ev["post"]) != strip(ed["post"]) or ev["exc"] != ed["e"]["exc"]:
            ctx.drift.append({"path": path[pre], "e": ed["e"], "model": strip(ed["post"]), "impl": strip(ev["post"]),
                              "impl_exc": ev["exc"]})
        ctx.case([pre, {k: v for k, v in ed["e"].items() if k not in ("nid", "nids")}])
    return traces, meta


def random_histories(ctx, rng, n, maxops, names, read_case=None):
    traces, meta = [], []
    for _ in range(n):
        w = World(read_case)
        tr = [w.snapshot({"op": "init", "exc": ""})]
        hist = []
        for _ in range(rng.randint(1, maxops)):
            t = 1 if rng.random() < 0.7 else 2
            L = w.project()[t - 1]
            ln = len(L)
            keys = [c["s"] for c in L] + ["Z"] + list(names)
            op = rng.choice(["append_curve", "insert_curve", "delete_ix", "delete_mn", "update_mn", "update_ix",
                             "replace_item", "setitem_arr", "setitem_item", "set_data"])
            e = {"op": op, "t": t}
            if op in ("append_curve", "insert_curve", "replace_item", "setitem_item"):
                e["n"] = rng.choice(names)
                e["a"] = rng.choice([1, 2, 4])
            if op in ("insert_curve", "delete_ix", "update_ix", "replace_item"):
                e["i"] = rng.randint(-ln - 1, ln + 1)
            if op in ("delete_mn", "update_mn", "setitem_arr", "setitem_item"):
                e["k"] = rng.choice(keys)
            if op == "setitem_item" and rng.random() < 0.7:
                e["k"] = "UNKNOWN" if e["n"].strip() == "" else e["n"]
            if op in ("update_mn", "update_ix"):
                e["a"], e["m"] = rng.choice([(3, 0), (0, 1), (5, 7), (3, 1), (0, 8), (4, 8)])
            if op == "setitem_arr":
                e["a"] = rng.choice([3, 5])
            if op == "set_data":
                wdt = rng.randint(max(ln, 1), ln + 2)
                e["cols"] = [10 + i for i in range(1, wdt + 1)]
                e["truncate"] = rng.random() < 0.4
                k = rng.choice([0, 0, rng.randint(1, wdt)])
                e["names"] = [rng.choice(names) for _ in range(k)]
            hist.append(e)
            tr.append(w.apply(e))
        ctx.evaluations += 1
        ctx.case([read_case, hist])
        traces.append(tr)
        meta.append({"read_case": read_case, "history": hist})
    return traces, meta
