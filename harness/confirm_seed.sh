#!/bin/sh
# confirm one seeded mutation: $1 = directory holding patch.diff + demo.py, $2 = id (e.g. C13-1)
# result: /tmp/confirm/<id>.json
src=$1; id=$2
wt=/tmp/confirm-wt-$id
mkdir -p /tmp/confirm
rm -rf $wt
git -C /repo worktree add -q --detach $wt HEAD || exit 2
cd $wt
base_demo=$( /venv/bin/python $src/demo.py >/tmp/confirm/$id.demo0.log 2>&1; echo $? )
if git apply $src/patch.diff 2>/tmp/confirm/$id.apply.log; then applied=1; else applied=0; fi
mut_demo=$( /venv/bin/python $src/demo.py >/tmp/confirm/$id.demo1.log 2>&1; echo $? )
/venv/bin/python -m pytest -q -p no:cacheprovider --timeout=900 -o addopts="" > /tmp/confirm/$id.suite.log 2>&1
summary=$(tail -1 /tmp/confirm/$id.suite.log)
fails=$(grep '^FAILED' /tmp/confirm/$id.suite.log | sed 's/ - .*//' | sort | tr '\n' ' ')
cd /
git -C /repo worktree remove --force $wt
printf '{"id":"%s","applied":%s,"demo_unchanged_exit":%s,"demo_mutated_exit":%s,"suite":"%s","failed":"%s"}\n' "$id" "$applied" "$base_demo" "$mut_demo" "$summary" "$fails" > /tmp/confirm/$id.json
