"""Rewrite the 'as built' coverage table in DESIGN.md from evidence/*.json (python harness/summary.py)."""
import json
import os

BEGIN = "<!-- coverage-table:begin -->"
END = "<!-- coverage-table:end -->"


def main():
    rows = []
    for i in range(1, 21):
        pid = "C%02d" % i
        p = "/verif/evidence/%s.json" % pid
        if not os.path.exists(p):
            continue
        e = json.load(open(p))
        c = e["coverage"]
        models = "; ".join("%s: %d states" % (r["label"].split(":")[0][:60], r["states"]) for r in c.get("tlc_runs", [])
                           if not r["module"].startswith("Trace_"))
        rows.append("| %s | %s | %s | %d | %d | %d | %d | %s | %.0f s |" % (
            pid, e["tier"], models, c["traces_validated_against_impl"], c.get("trace_events", 0), c["evaluations"],
            c["distinct_nontrivial"], ", ".join(sorted(c.get("known_findings_seen", {}))) or "—", e["wall_s"]))
    table = ("\n| property | tier | TLC model runs (distinct states) | traces validated | events | executions of lasio | distinct cases | known findings seen | wall |\n"
             "|---|---|---|---|---|---|---|---|---|\n" + "\n".join(rows) + "\n")
    p = "/verif/DESIGN.md"
    s = open(p).read()
    if BEGIN in s:
        s = s[:s.index(BEGIN)] + BEGIN + table + END + s[s.index(END) + len(END):]
        open(p, "w").write(s)
    print(table)


if __name__ == "__main__":
    main()
