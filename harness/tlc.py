"""Run TLC and parse what it prints.

Everything TLC needs (module copies, cfg, trace files, metadir) lives in a
scratch directory under /verif/.work/<pid>/ which is removed on exit.
"""
import atexit
import json
import os
import re
import shutil
import subprocess
import sys
import time

VERIF = os.path.dirname(os.path.dirname(os.path.abspath(__file__)))
SPEC = os.path.join(VERIF, "spec")
JAR = "/opt/veriftools/tla/tla2tools.jar"
WORK = os.path.join(VERIF, ".work", str(os.getpid()))
_counter = [0]


class MachineryError(Exception):
    """TLC/SANY failure, timeout, malformed output: exit code 2, never a verdict."""


def workdir():
    os.makedirs(WORK, exist_ok=True)
    return WORK


def _cleanup():
    shutil.rmtree(WORK, ignore_errors=True)
    try:
        os.rmdir(os.path.dirname(WORK))
    except OSError:
        pass


atexit.register(_cleanup)


def scratch(prefix="t"):
    _counter[0] += 1
    d = os.path.join(workdir(), "%s%d" % (prefix, _counter[0]))
    os.makedirs(d, exist_ok=True)
    return d


class Result(object):
    def __init__(self, out, wall):
        self.out = out
        self.wall = wall
        self.generated = 0
        self.distinct = 0
        self.depth = 0
        self.ok = False
        self.violation = None
        m = re.search(r"(\d+) states generated, (\d+) distinct states found", out)
        if m:
            self.generated = int(m.group(1))
            self.distinct = int(m.group(2))
        m = re.search(r"depth of the complete state graph search is (\d+)", out)
        if m:
            self.depth = int(m.group(1))
        if "Model checking completed. No error has been found." in out:
            self.ok = True
        m = re.search(r"Error: Invariant (\S+) is violated", out)
        if m:
            self.violation = m.group(1)
        m = re.search(r"Error: The invariant of (\S+) is equal to FALSE", out)
        if m:
            self.violation = m.group(1)
        m = re.search(r"Error: Action property (\S+) is violated", out)
        if m:
            self.violation = m.group(1)
        # simulation mode has no "completed" line
        self.sim_ok = "Error:" not in out

    def printed_json(self):
        """Values printed with PrintT(ToJson(x)) -- one JSON string literal per line."""
        res = []
        for line in self.out.splitlines():
            if line.startswith('"{') or line.startswith('"['):
                try:
                    res.append(json.loads(json.loads(line)))
                except ValueError:
                    raise MachineryError("unparsable TLC output line: %r" % line[:200])
        return res

    def printed_tuples(self, tag):
        """Lines printed with PrintT(<<"TAG", a, b, ...>>) -> list of lists (ints/strings)."""
        res = []
        pat = re.compile(r'^<<"%s"(.*)>>$' % re.escape(tag))
        for line in self.out.splitlines():
            m = pat.match(line.strip())
            if m:
                body = m.group(1)
                vals = []
                for tok in re.findall(r',\s*("(?:[^"\\]|\\.)*"|-?\d+|TRUE|FALSE)', body):
                    if tok.startswith('"'):
                        vals.append(json.loads(tok))
                    elif tok in ("TRUE", "FALSE"):
                        vals.append(tok == "TRUE")
                    else:
                        vals.append(int(tok))
                res.append(vals)
        return res


def run(module, cfg_text, env=None, workers=1, timeout=600, simulate=None, depth=None,
        seed=None, extra=(), allow_violation=False, coverage=False, dfs=False):
    """Run TLC on spec/<module>.tla with the given cfg text. Returns Result."""
    d = scratch("tlc")
    cfg = os.path.join(d, module + ".cfg")
    with open(cfg, "w") as f:
        f.write(cfg_text)
    cmd = _tlc_cmd(dfs)
    cmd += ["-workers", str(workers), "-metadir", os.path.join(d, "meta"), "-noGenerateSpecTE",
            "-config", cfg]
    if simulate is not None:
        cmd += ["-simulate", simulate]
    if depth is not None:
        cmd += ["-depth", str(depth)]
    if seed is not None:
        cmd += ["-seed", str(seed)]
    if coverage:
        cmd += ["-coverage", "1"]
    cmd += list(extra)
    cmd.append(os.path.join(SPEC, module + ".tla"))
    e = dict(os.environ)
    if env:
        e.update(env)
    t0 = time.time()
    try:
        p = subprocess.run(cmd, cwd=SPEC, env=e, stdout=subprocess.PIPE, stderr=subprocess.STDOUT,
                           timeout=timeout, universal_newlines=True)
    except subprocess.TimeoutExpired:
        raise MachineryError("TLC timed out after %ss on %s" % (timeout, module))
    out = p.stdout
    r = Result(out, time.time() - t0)
    r.dir = d
    bad = ("Parsing or semantic analysis failed" in out or "Error: TLC threw an unexpected exception" in out
           or "TLC encountered the following error" in out or "was not found" in out and "Error" in out)
    if bad or (not r.ok and simulate is None and r.violation is None):
        raise MachineryError("TLC failed on %s:\n%s" % (module, out[-3000:]))
    if r.violation and not allow_violation:
        raise MachineryError("unexpected violation of %s in %s:\n%s" % (r.violation, module, out[-3000:]))
    return r


CP = JAR + ":/opt/veriftools/tla/CommunityModules-deps.jar"


def _tlc_cmd(dfs):
    cmd = ["java", "-XX:+UseParallelGC"]
    if dfs:
        cmd.append("-Dtlc2.tool.queue.IStateQueue=StateDeque")
    return cmd + ["-cp", CP, "tlc2.TLC"]


def sany(module):
    p = subprocess.run(["java", "-cp", CP, "tla2sany.SANY", os.path.join(SPEC, module + ".tla")], cwd=SPEC, stdout=subprocess.PIPE,
                       stderr=subprocess.STDOUT, universal_newlines=True, timeout=120)
    return p.returncode == 0 and "error" not in p.stdout.lower().replace("0 errors", ""), p.stdout


def write_json(name, obj):
    d = scratch("data")
    path = os.path.join(d, name)
    with open(path, "w") as f:
        json.dump(obj, f, separators=(",", ":"))
    return path
