"""pytest plugin (-p harness.recorder): record the repository's own test-suite as traces for Trace_Section / Trace_Write.

Nothing in /repo changes: the plugin wraps the public mutators of lasio.SectionItems and LASFile.write at import time,
logs one event per outermost call (after it returned or raised), and dumps all traces to $VERIF_RECORD_OUT at session end.
Calls whose arguments fall outside the modelled domain (non-string keys for key operations, explicit STRT/STOP/STEP) are not
logged; the next logged event re-synchronises from a fresh projection ("init" / "edit" events)."""
import hashlib
import io
import json
import os

import numpy as np

import lasio
from lasio.las_items import HeaderItem, SectionItems

_ids = {}
_keep = []
_next = [1]
_sections = {}        # id(section) -> state
_files = {}           # id(las) -> state
_depth = [0]
SECTION_TRACES = []
WRITE_TRACES = []


def ident(obj):
    k = id(obj)
    if k not in _ids:
        _ids[k] = _next[0]
        _next[0] += 1
        _keep.append(obj)
    return _ids[k]


def project(sec, vals):
    out = []
    for it in list.__iter__(sec):
        if not isinstance(it, HeaderItem):
            return None
        r = repr(getattr(it, "value", None))[:80]
        if r not in vals:
            vals[r] = len(vals)
        o, s = it.original_mnemonic, it.mnemonic
        if not isinstance(o, str) or not isinstance(s, str):
            return None
        out.append({"id": ident(it), "o": o, "s": s, "v": vals[r]})
    return out


def sec_state(sec):
    st = _sections.get(id(sec))
    if st is None:
        st = {"trace": [], "vals": {}, "last": None}
        _sections[id(sec)] = st
        _keep.append(sec)
        SECTION_TRACES.append(st["trace"])
    return st


def sync(sec, st):
    cur = project(sec, st["vals"])
    if cur is None:
        return None
    if st["last"] != cur or not st["trace"]:
        st["trace"].append({"op": "init", "exc": "", "xf": bool(sec.mnemonic_transforms), "post": cur})
        st["last"] = cur
    return cur


def wrap(name, describe):
    orig = getattr(SectionItems, name)

    def wrapper(self, *a, **kw):
        if _depth[0] > 0:
            return orig(self, *a, **kw)
        st = sec_state(self)
        pre = sync(self, st)
        ev = describe(self, st, a, kw) if pre is not None else None
        _depth[0] += 1
        exc = None
        try:
            res = orig(self, *a, **kw)
        except BaseException as e:
            exc = e
            res = None
        finally:
            _depth[0] -= 1
        if ev is not None:
            known = id(res) in _ids         # (before the projection registers every item of the section)
            post = project(self, st["vals"])
            if post is not None and (exc is None or isinstance(exc, (KeyError, IndexError))):
                ev["exc"] = type(exc).__name__ if exc is not None else ""
                if ev["op"] == "get" and exc is None:
                    ev["rid"] = ident(res)
                    ev["reto"] = res.original_mnemonic
                    ev["nid"] = ev["rid"] if not known else 0
                ev["post"] = post
                st["trace"].append(ev)
                st["last"] = post
            else:
                st["last"] = None
        if exc is not None:
            raise exc
        return res
    wrapper.__name__ = name
    setattr(SectionItems, name, wrapper)


def d_append(self, st, a, kw):
    it = a[0] if a else kw.get("newitem")
    if not isinstance(it, HeaderItem):
        return None
    return {"op": "append", "n": it.original_mnemonic, "nid": ident(it)}


def d_insert(self, st, a, kw):
    if len(a) < 2 or not isinstance(a[1], HeaderItem) or not isinstance(a[0], int):
        return None
    return {"op": "insert", "i": int(a[0]), "n": a[1].original_mnemonic, "nid": ident(a[1])}


def d_del(self, st, a, kw):
    k = a[0]
    if isinstance(k, bool):
        return None
    if isinstance(k, int):
        return {"op": "delidx", "i": int(k)}
    if isinstance(k, str):
        return {"op": "delkey", "k": k}
    return None


def d_set(self, st, a, kw):
    k, new = a[0], a[1]
    if not isinstance(k, str):
        return None
    if isinstance(new, HeaderItem):
        return {"op": "setitem", "k": k, "n": new.original_mnemonic, "nid": ident(new)}
    r = repr(new)[:80]
    if r not in st["vals"]:
        st["vals"][r] = len(st["vals"])
    return {"op": "setvalue", "k": k, "v": st["vals"][r]}


def d_get(self, st, a, kw):
    k = a[0] if a else kw.get("mnemonic")
    if not isinstance(k, str):
        return None
    add = bool(kw.get("add", a[2] if len(a) > 2 else False))
    return {"op": "get", "k": k, "add": add}


for _n, _d in (("append", d_append), ("insert", d_insert), ("__delitem__", d_del), ("__setitem__", d_set), ("get", d_get)):
    wrap(_n, _d)

# ---- LASFile.write ---------------------------------------------------------------------------------------------
_orig_write = lasio.LASFile.write


def snapshot(las):
    from harness.writefx import snapshot as snap
    return snap(las)


def write_wrapper(self, file_ref, **kwargs):
    st = _files.get(id(self))
    if st is None:
        st = {"trace": [], "last": None}
        _files[id(self)] = st
        _keep.append(self)
        WRITE_TRACES.append(st["trace"])
    try:
        pre = snapshot(self)
    except Exception:
        pre = None
    skip = pre is None or any(k in kwargs for k in ("STRT", "STOP", "STEP")) or not hasattr(file_ref, "write")
    if not skip:
        if not st["trace"]:
            st["trace"].append({"op": "origin", "kind": "read_ok", "shape": "suite", "snap": pre})
        elif st["last"] != pre:
            st["trace"].append({"op": "edit", "what": "other", "snap": pre})
    buf = io.StringIO()
    exc = None
    try:
        _orig_write(self, buf, **kwargs)
    except BaseException as e:
        exc = e
    text = buf.getvalue()
    try:
        file_ref.write(text) if hasattr(file_ref, "write") else _orig_write(self, file_ref, **kwargs)
    except Exception:
        pass
    if not skip:
        post = snapshot(self)
        if exc is None:
            wrap_opt = kwargs.get("wrap")
            st["trace"].append({"op": "write", "sig": repr(sorted((k, repr(v)) for k, v in kwargs.items())),
                                "wrap": "none" if wrap_opt is None else str(wrap_opt).lower(), "pre": pre, "post": post, "exc": "",
                                "text": hashlib.sha1(text.encode("utf-8")).hexdigest()[:16],
                                "out": {"strt": "NA", "stop": "NA", "step": "NA", "units": True}})
            st["last"] = post
        else:
            st["last"] = None
    if exc is not None:
        raise exc


lasio.LASFile.write = write_wrapper


def pytest_sessionfinish(session, exitstatus):
    out = os.environ.get("VERIF_RECORD_OUT")
    if out:
        with open(out, "w") as f:
            json.dump({"sections": [t for t in SECTION_TRACES if len(t) > 1],
                       "writes": [t for t in WRITE_TRACES if len(t) > 1]}, f)
