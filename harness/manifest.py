"""Regenerate /verif/MANIFEST.json from the table below (python -m harness.manifest)."""
import json
import os
import subprocess

from .tlc import VERIF

# property id -> (technique, level text, level note, design ref)
CHECKS = {}
NOT_APPLICABLE = {}


def check(pid, technique, text, note, ref):
    CHECKS[pid] = (technique, text, note, ref)


TRUSTED = ("Trusted base: TLC 1.8 and the CommunityModules Json/IOUtils operators; the Python projection of real lasio "
           "objects into the abstract state (harness/*.py), which is deliberately small and listed per property in "
           "DESIGN.md section 4 under 'P'; exhaustiveness holds for the stated small constants only, beyond them the "
           "coverage is seeded-random and reported as such in the evidence file.")

check("C13", "TLA+ model (Section/SectionAlgo, SectionReuse for items put back after deletion) checked by TLC to its fixpoint; every SectionAlgo transition replayed on real "
      "SectionItems; recorded and random histories validated by TLC against Trace_Section",
      "Model checking of an explicit TLA+ specification bound to the code in both directions: the algorithm layer "
      "(suffix assignment, first-match lookup) is model-checked against the intent layer for all reachable sections of "
      "<= MaxLen items, every transition TLC explored is replayed on a real SectionItems, and every recorded behaviour of "
      "the real object (model-driven and seeded-random, on fresh sections and on sections produced by lasio.read with each "
      "mnemonic_case, including histories that put a deleted item back with its stale session name) must be a behaviour the "
      "intent layer allows, clause by clause.", TRUSTED, "DESIGN.md 4 C13")
check("C15", "same state graph and traces as C13, judged on the lookup/probe clauses (LookupsAgree, IntIsPosition, "
      "SliceIsList, Ids, Exc, Values, Ret; LookupsAgree.copy on deepcopy / pickle copies) of Trace_Section",
      "Model checking + trace validation: after every replayed model transition and inside random histories the real "
      "section is probed with present/absent/other-case/int/negative-int/slice keys through `in`, [], attribute access and "
      "get(); TLC evaluates the intent operators (Lookup, PyPos, PySlice) on the logged state and compares.", TRUSTED,
      "DESIGN.md 4 C15")
check("C14", "TLA+ list model (Curves/CurvesAlgo, two LASFile objects) checked by TLC to its fixpoint; transitions replayed "
      "on real LASFile objects; random edit histories validated by TLC against Trace_Curves",
      "Model checking + trace validation: the curve-editing algorithm (insert/pop, suffix renumbering, set_data renaming) "
      "is model-checked against a plain list model for all reachable pairs of LASFiles within the bounds; each explored "
      "transition is replayed on real objects with keys/values/items/index/data/int/mnemonic views projected after "
      "every step and compared by TLC with the list model, and the other LASFile must stay unchanged (frame).", TRUSTED,
      "DESIGN.md 4 C14")
check("C17", "TLA+ copy model on the SectionAlgo state graph (CopyKeepsNames invariant, TLC); every reachable section state "
      "built on a real LASFile and copied by pickle 0..5 / deepcopy as LASFile, section and item; copy/mutate traces validated "
      "by TLC against Trace_Copy",
      "Model checking + trace validation: TLC checks that the modelled copy functions keep the session names on every "
      "reachable section (it produces the stale-suffix counterexample for copy-by-append in one second), and every such "
      "section, the example corpus and generated files with text/int/float curves are copied for real; Trace_Copy demands "
      "component-wise equality (names, session and original mnemonics, fields with value types, arrays, dtypes, index unit, "
      "all other attributes, byte-identical write()) and independence under four kinds of mutation of the copy.", TRUSTED,
      "DESIGN.md 4 C17")
check("C20", "TLA+ handle protocol (Handles/HandlesAlgo) model-checked by TLC with a fault at every step; real calls run under "
      "open()/io.open proxies with an OSError injected at every k-th low-level operation; event traces validated by TLC "
      "against Trace_Handles",
      "Model checking + fault enumeration bound by trace validation: the call structure of read/write/to_csv (with-blocks, "
      "try/finally) is model-checked for NoLeak and CallerKept under a fault at every open and operation (the variant "
      "without try/finally is shown to violate NoLeak); every real call kind x input x fault position is executed and its "
      "open/io/fault/close/end events must satisfy NoLeak, CallerKept and ObjectHoldsNoHandle at the end of the call.",
      TRUSTED, "DESIGN.md 4 C20")
check("C16", "TLA+ model of the STRT/STOP/STEP refresh decision (WriteAlgo) model-checked by TLC; all its histories "
      "origin;edit*;write^k executed on real LASFile objects with full snapshots; traces validated by TLC against "
      "Trace_Write/WriteEffects",
      "Model checking + trace validation: TLC checks over all histories within MaxOps that the modelled refresh decision "
      "gives truthful STRT/STOP/STEP whenever the statement demands it, and every such history is executed for real; "
      "Trace_Write checks per write() that arrays, order, mnemonics and descriptions are untouched, that every changed "
      "item is one of the documented ones (explicit disjuncts), that VERS is untouched, that a repeated write is "
      "byte-identical with no further change, and that the output's STRT/STOP/STEP/units are truthful when demanded.",
      TRUSTED, "DESIGN.md 4 C16")
check("C10", "TLA+ heap model of reads/mutations/writes (ChannelsAlgo) model-checked by TLC; all its histories executed on "
      "real lasio over the channel x encoding x newline product; digests validated by TLC against Trace_Channels with "
      "pristine per-(content, options) references computed in fresh interpreters",
      "Model checking + trace validation: TLC checks ReadIsFunction on the heap model (fresh default items per object; the "
      "shared-defaults variant is shown to violate it), every history of the model is executed for real with the read "
      "parameters cycling through the whole channel/encoding/newline product, and Trace_Channels requires every read to "
      "return exactly the pristine result of its (content, options), every non-ASCII token of the header to survive, "
      "and every mutation or write of one result to leave all other live results unchanged.", TRUSTED, "DESIGN.md 4 C10")
READ = ("Model checking of the instance space + trace validation: TLC enumerates the abstract LAS texts of the family "
        "(ReadInstances.tla), checks the domain predicate LegalText and the model-level properties Partition and OnlyVandWsteer "
        "of the intent function LasRead!Read on each; every text is concretised (spellings, padding, title styles, newlines are "
        "presentation chosen by seed), read by real lasio, and the projected result must equal LasRead!Read(text, opts), "
        "evaluated by TLC in Trace_Read, clause by clause. ")
check("C02", "TLA+ intent function LasRead!Read over the TLC-enumerated family C02 (decorated data blocks x following sections); "
      "both engines run on every concretised text; Trace_Read (TLC) compares both with the model and with each other, bits included",
      READ + "For C02 both engines read every text; the LASIO_VERIF hook proves the fast path produced the result wherever "
      "genfromtxt can stop by itself (otherwise the check exits 2 as vacuous).", TRUSTED, "DESIGN.md 4 C02")
check("C05", "TLA+ intent function LasRead!Read over the TLC-enumerated family C05 (all orders of all subsets of sections, ~A "
      "anywhere, empty sections, steering names elsewhere, VERS 1.2/2.0); Trace_Read (TLC) compares the real result with the model",
      READ, TRUSTED, "DESIGN.md 4 C05")
check("C06", "TLA+ NULL rule (LasRead!CellOut) over the TLC-enumerated family C06 (all class masks x text column x policy x NULL "
      "present x wrapped); six NULL values and their spellings; Trace_Read (TLC) compares both engines' results with the model",
      READ, TRUSTED, "DESIGN.md 4 C06")
check("C07", "TLA+ column binding (LasRead!Curves) over the TLC-enumerated family C07 (d, c, r, decorations, wrapped layouts, 21..101-row and 11..24-column blocks); cells "
      "carry their coordinates; every key must address its own curve and las.data column j must be curve j; Trace_Read (TLC) compares both engines' results with the model",
      READ, TRUSTED, "DESIGN.md 4 C07")
check("C19", "TLA+ intent function LasRead!Read with junk lines over the TLC-enumerated family C19 (every insertion site, one or two "
      "junk lines, flag on/off) x pooled and seeded random junk; Trace_Read (TLC): no exception with the flag, genuine items kept, "
      "only LASHeaderError naming a junk line without it",
      READ, TRUSTED, "DESIGN.md 4 C19")
check("C09", "Presentation.tla (TLC): transformations as actions (single and bulk insertion of blank/comment lines, re-wrapping), invariant Read unchanged; every reachable transformed text "
      "concretised with fresh presentation choices and compared with its base on real lasio (Trace_Read + Trace_Presentation); "
      "corpus and writer output under seeded concrete transformations (Trace_Presentation)",
      "Model checking + metamorphic trace validation: TLC proves on the model that inserting blank/comment lines outside ~Other "
      "and re-wrapping WRAP=YES data preserve LasRead!Read (and that inserting into ~Other does not); every reachable "
      "transformed text, concretised with a fresh draw of spacing/title/newline/delimiter-padding choices, must read to the "
      "same complete result (digest) as its base and to the model's result; 250 corpus/writer-output sources are transformed "
      "concretely with the sites logged, and TLC checks that each transformation was enabled and the digest unchanged.",
      TRUSTED, "DESIGN.md 4 C09")
check("C08", "TLA+ literal recogniser NumLit (DFA checked against a declarative grammar by TLC); every string up to the length "
      "bound over the property's alphabet placed as a header value in five section kinds under five mnemonics and read by real "
      "lasio; observations validated by TLC against NumLit!Class",
      "Model checking + exhaustive instance validation: TLC proves the DFA and the declarative grammar equal on all strings up "
      "to length 5-6 over a reduced alphabet; ALL strings up to length 3 (quick) / 4 (thorough, plus 60 000 longer random ones) "
      "over the 18-symbol alphabet of the statement and a list of boundary cases are read through real files and TLC "
      "evaluates NumLit!Class on every one (about 100 000 observations in the quick tier).", TRUSTED, "DESIGN.md 4 C08")
check("C04", "TLA+ line grammar HeaderLine!Parse; TLC proves Parse(Format(f, pads), sec) = Expected(f) on 8.4 million laid-out "
      "lines of the abstract pools; ~50 000 concrete lines passed to lasio.reader.read_header_line and validated by TLC "
      "against HeaderLine!Parse (Trace_HeaderLine)",
      "Model checking + instance validation: the documented grammar (first period, unit run with the 'digits + one blank' "
      "exception, last colon / first non-clock colon in ~Parameter, NAME : VALUE) is written as a TLA+ function on character "
      "sequences; TLC proves it inverts formatting on every padding of every pooled field tuple in six section kinds, and "
      "evaluates it on every concrete line given to the real parser, comparing the four stripped fields.", TRUSTED,
      "DESIGN.md 4 C04")
RT = ("Model checking + trace validation: the algorithm-layer module WriteLayout is model-checked by TLC (column count after "
      "sniffing a wrapped layout equals the declared count for every curve count 1..40 x fields-per-line 1..12 x rows; reader "
      "and writer order tables agree for every spelling/version/case -- the pre-repair variants are shown to fail), the "
      "instance space is enumerated by TLC (WriteInstances) and every instance is executed on real lasio; Trace_RoundTrip "
      "(TLC) judges the logged observation clause by clause. ")
check("C01", "WriteLayout (TLC) for the wrapped-layout arithmetic; WriteInstances family C01 (56 000 option tuples incl. 256..4096-row blocks, TLC) written and "
      "re-read by real lasio; per-sample printed-precision verdicts validated by Trace_RoundTrip",
      RT + "C01: curve count, mnemonic order, row count, every finite sample within half a unit of the last printed digit, "
      "every NaN off the index back as NaN, index never nulled.", TRUSTED, "DESIGN.md 4 C01")
check("C03", "WriteLayout!OrdersAgree (TLC); WriteInstances family C03 (item lists x section x version x case) built, written and "
      "re-read; items compared field by field by Trace_RoundTrip, which also evaluates the statement's conformance predicate",
      RT + "C03: same item count and, per item, case-mapped original mnemonic, unit, canonical value, description, with the "
      "permitted differences as explicit disjuncts; ~Other equal.", TRUSTED, "DESIGN.md 4 C03")
check("C11", "load/save cycles read;(write;re-read)^k over corpus, generated and mutated inputs x writer option sets; canonical content "
      "digests validated by Trace_RoundTrip!TCycle (TLC)",
      RT + "C11: every re-read equals the first re-read (header numbers numerically, data by bytes).", TRUSTED, "DESIGN.md 4 C11")
check("C12", "WriteLayout!OrdersAgree (TLC); all pairs of writer configurations (WriteInstances family C12) x inputs; content digests "
      "of the two re-reads validated by Trace_RoundTrip!TPair (TLC)",
      RT + "C12: for every pair of configurations of equal precision the re-read contents are equal apart from VERS and WRAP.",
      TRUSTED, "DESIGN.md 4 C12")
check("C18", "Views.tla decision tables (index unit over 256 unit-class combinations, to_csv header rows over 27 option "
      "combinations, JSON value classes, Excel header rows) enumerated and sanity-checked by TLC; every export of LASFiles "
      "covering the statement's value classes observed and validated by Trace_Views (TLC)",
      "Model checking of the decision tables + trace validation: TLC enumerates every unit-class combination and every "
      "to_csv option combination with the expected outcome; each is exercised on real lasio (units spelled from the recognised "
      "sets in any case), and to_json (strict parser), to_csv (x csv dialects), to_excel (re-opened with openpyxl), df() and "
      "set_data_from_df(df()) are observed on objects with int/float/text/NaN/None header values, float and text curves, NaN "
      "samples, duplicate and blank mnemonics, the empty LASFile and corpus files; TLC evaluates the expectations of Views.tla "
      "on every observation.", TRUSTED, "DESIGN.md 4 C18")


def main():
    props = [json.loads(l)["id"] for l in open(os.path.join(VERIF, "properties.jsonl"))]
    try:
        commits = subprocess.check_output(["git", "-C", "/repo", "log", "--format=%h %s", "--grep=^verif hook"],
                                          universal_newlines=True).split("\n")
        commits = [c.split()[0] for c in commits if c.strip()]
    except Exception:
        commits = []
    man = {
        "version": 1,
        "setup_cmd": "cd /verif && /venv/bin/python -m harness.setup",
        "hooks": {
            "guard": "LASIO_VERIF",
            "enable": "the checks set LASIO_VERIF=1 in their own process environment before importing lasio from /repo "
                      "(pure Python, nothing to build); the only hook records which data engine produced each data section",
            "baseline_off_cmd": "cd /repo && env -u LASIO_VERIF /venv/bin/python -m pytest -ra -q -p no:cacheprovider --timeout=900",
            "source_commits": commits,
            "add_only": True,
        },
        "engines": [
            {"name": "tlc", "path": "/opt/veriftools/tla/tla2tools.jar", "serves_properties": sorted(CHECKS),
             "kind_free_text": "TLC 1.8 explicit-state model checker; model checking of spec/*.tla and trace validation "
                               "(Trace_*.tla) of behaviours recorded from the implementation"},
        ],
        "checks": [],
        "notes": "All checks: `python -m harness.run <id> --tier quick|thorough`; exit 0 = held, 1 = VIOLATION line, "
                 "2 = machinery failure. VERIF_SEED seeds every random choice. VERIF_REPO (default /repo) selects the "
                 "tree under test. Scratch files live in /verif/.work/<pid> and are removed on exit.",
        "not_applicable": [],
    }
    for pid in props:
        if pid in CHECKS:
            technique, text, note, ref = CHECKS[pid]
            man["checks"].append({
                "property_id": pid,
                "quick_cmd": "cd /verif && /venv/bin/python -m harness.run %s --tier quick" % pid,
                "thorough_cmd": "cd /verif && /venv/bin/python -m harness.run %s --tier thorough" % pid,
                "evidence_file": "/verif/evidence/%s.json" % pid,
                "replay_cmd_template": "cd /verif && /venv/bin/python -m harness.run %s --replay {path}" % pid,
                "engine": "tlc",
                "level_claimed": {"category": "model_checking", "text": text, "design_ref": ref},
                "level_note": note,
                "technique": technique,
            })
        else:
            man["not_applicable"].append({"property_id": pid, "reason": NOT_APPLICABLE.get(
                pid, "check under construction in this session (the TLA+ technique applies; see DESIGN.md section 4); "
                     "not claimed until its quick command is green on the unchanged tree")})
    with open(os.path.join(VERIF, "MANIFEST.json"), "w") as f:
        json.dump(man, f, indent=1)
    print("MANIFEST.json: %d checks, %d not claimed" % (len(man["checks"]), len(man["not_applicable"])))


if __name__ == "__main__":
    main()
