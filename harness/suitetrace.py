"""Run the repository's unedited test-suite under harness.recorder and return the recorded traces."""
import json
import os
import subprocess
import sys

from . import core, tlc


def record():
    repo = core.REPO
    if not os.path.isdir(os.path.join(repo, "tests")) or not os.path.exists(os.path.join(repo, "tests", "test_read.py")):
        return None
    out = os.path.join(tlc.scratch("suite"), "suite-traces.json")
    env = dict(os.environ, PYTHONPATH=core.VERIF + os.pathsep + os.environ.get("PYTHONPATH", ""), VERIF_RECORD_OUT=out)
    env.pop("LASIO_VERIF", None)
    p = subprocess.run([sys.executable, "-m", "pytest", "-q", "-p", "no:cacheprovider", "-o", "addopts=", "-p", "harness.recorder",
                        "--timeout=900", "tests"], cwd=repo, env=env, stdout=subprocess.PIPE, stderr=subprocess.STDOUT,
                       universal_newlines=True, timeout=1800)
    if not os.path.exists(out):
        raise tlc.MachineryError("suite-trace run produced no traces:\n" + p.stdout[-1500:])
    doc = json.load(open(out))
    doc["pytest_summary"] = p.stdout.strip().splitlines()[-1] if p.stdout.strip() else ""
    return doc
