"""Shared plumbing of all checks: context, verdicts, known findings, evidence."""
import hashlib
import json
import os
import sys
import time

from . import tlc

VERIF = tlc.VERIF
REPO = os.environ.get("VERIF_REPO", "/repo")
os.environ.setdefault("LASIO_VERIF", "1")
os.environ.setdefault("PYTHONHASHSEED", "0")
if sys.path[0] != REPO:
    sys.path.insert(0, REPO)

LEVEL = "model_checking"

import logging  # noqa: E402
logging.disable(logging.CRITICAL)
import warnings  # noqa: E402
warnings.filterwarnings("ignore")      # lasio's warnings about the generated inputs are not part of any verdict


def load_findings():
    path = os.path.join(VERIF, "known_findings.json")
    with open(path) as f:
        return json.load(f)


class Ctx(object):
    def __init__(self, pid, tier, seed):
        self.pid = pid
        self.tier = tier
        self.seed = seed
        self.t0 = time.time()
        self.states = 0
        self.transitions = 0
        self.traces = 0            # traces validated against the implementation
        self.events = 0
        self.evaluations = 0       # executions of real lasio code
        self.distinct = set()      # digests of distinct non-trivial cases
        self.samples = []
        self.assumptions = []
        self.drift = []
        self.extra = {}
        self.tlc_runs = []
        self.violations = []       # dicts: clause, detail, replay
        self.known = {}            # finding id -> count
        self.exhaustive = None
        self.findings = load_findings()

    # ---- TLC -------------------------------------------------------------
    def model_check(self, module, cfg, label=None, **kw):
        r = tlc.run(module, cfg, **kw)
        self.states += r.distinct
        self.transitions += r.generated
        self.tlc_runs.append({"module": module, "label": label or module, "states": r.distinct,
                              "transitions": r.generated, "depth": r.depth, "wall_s": round(r.wall, 2)})
        return r

    def validate(self, module, doc, cfg=None, timeout=1800, label=None, _chunked=False):
        """Run trace spec `module` over doc (dict with 'traces').  Returns (fails, stuck)
        fails: list of (tid0, l0, clause) 0-based; stuck: list of (tid0, matched, length)."""
        traces = doc["traces"]
        if not traces:
            return [], []
        # large batches are validated in chunks (bounded JSON size and TLC memory); indices are re-based
        total = sum(len(t) for t in traces)
        MAXB = 30 * 1000 * 1000           # JSON bytes per TLC invocation (TLC's deserialiser is slow and memory-hungry beyond that)
        sizes = None
        if len(traces) > 200 and not _chunked:
            sample = traces[::max(1, len(traces) // 200)]
            if sum(len(json.dumps(t)) for t in sample) / len(sample) * len(traces) > MAXB:
                sizes = [len(json.dumps(t)) for t in traces]
        if (total > 250000 or sizes) and len(traces) > 1 and not _chunked:
            fails = []
            start = 0
            while start < len(traces):
                n, ev, nb = 0, 0, 0
                while start + n < len(traces) and (n == 0 or (ev + len(traces[start + n]) <= 250000
                                                              and (sizes is None or nb + sizes[start + n] <= MAXB))):
                    ev += len(traces[start + n])
                    nb += sizes[start + n] if sizes else 0
                    n += 1
                part = dict(doc, traces=traces[start:start + n])
                f, _ = self.validate(module, part, cfg=cfg, timeout=timeout, label=label, _chunked=True)
                fails += [(t + start, l, c) for t, l, c in f]
                start += n
            return fails, []
        path = tlc.write_json("traces.json", doc)
        cfg = cfg or ("SPECIFICATION TSpec\nCONSTRAINT Reach\nPOSTCONDITION Post\nCHECK_DEADLOCK FALSE\n")
        r = tlc.run(module, cfg, env={"TRACE_FILE": path}, workers=1, timeout=timeout)
        os.remove(path)
        done = r.printed_tuples("TRACES")
        if not done or done[0][0] != len(traces):
            raise tlc.MachineryError("trace validation of %s did not finish: %s" % (module, r.out[-2000:]))
        fails = [(t - 1, l - 1, c) for t, l, c in r.printed_tuples("FAIL")]
        stuck = [(t - 1, m, n) for t, m, n in r.printed_tuples("STUCK")]
        self.traces += len(traces)
        self.events += sum(len(t) for t in traces)
        # vacuity guard material: how often every kind of event was exercised
        byop = self.extra.setdefault("events_by_op", {}).setdefault(module, {})
        for t in traces:
            for e in t:
                k = e.get("op", "?") if isinstance(e, dict) else "?"
                byop[k] = byop.get(k, 0) + 1
        self.tlc_runs.append({"module": module, "label": label or module, "states": r.distinct,
                              "transitions": r.generated, "traces": len(traces), "wall_s": round(r.wall, 2)})
        self.states += r.distinct
        self.transitions += r.generated
        if stuck:
            raise tlc.MachineryError("trace spec %s could not consume traces %s (harness/spec mismatch)"
                                     % (module, stuck[:5]))
        return fails, stuck

    # ---- verdicts ----------------------------------------------------------
    def case(self, obj):
        """Count a distinct non-trivial case (by digest of its canonical JSON)."""
        self.distinct.add(hashlib.sha1(json.dumps(obj, sort_keys=True, default=str).encode()).hexdigest()[:16])

    def sample(self, obj, limit=6):
        if len(self.samples) < limit:
            self.samples.append(obj)

    def report(self, clause, detail, replay):
        """A behaviour of the real code that the intent layer does not allow."""
        pid = self.pid
        for f in self.findings.get("findings", []):
            if f["property"] == pid and f["clause"] == clause:
                self.known[f["id"]] = self.known.get(f["id"], 0) + 1
                return "known"
        self.violations.append({"clause": clause, "detail": detail, "replay": replay})
        return "violation"

    def require_ops(self, module, ops):
        """Every listed event kind must have been exercised, otherwise the run is vacuous (machinery failure)."""
        seen = self.extra.get("events_by_op", {}).get(module, {})
        missing = [o for o in ops if not seen.get(o)]
        if missing:
            raise tlc.MachineryError("vacuous run: %s never exercised %s" % (module, missing))

    def finish(self, rule, level_note=None):
        wall = time.time() - self.t0
        out_dir = os.environ.get("VERIF_EVIDENCE_DIR") or os.path.join(VERIF, "evidence")
        os.makedirs(out_dir, exist_ok=True)
        code = 0
        seen = set()
        for f in self.findings.get("findings", []):
            if f["property"] == self.pid and f["id"] in self.known:
                print("KNOWN-FINDING: property=%s %s [%s, %d occurrence(s) in this run]"
                      % (self.pid, f["text"], f["id"], self.known[f["id"]]))
        for v in self.violations:
            key = v["clause"]
            if key in seen:
                continue
            seen.add(key)
            rdir = os.path.join(VERIF, "replays", self.pid)
            os.makedirs(rdir, exist_ok=True)
            h = hashlib.sha1(json.dumps(v["replay"], sort_keys=True, default=str).encode()).hexdigest()[:12]
            path = os.path.join(rdir, h + ".json")
            with open(path, "w") as fh:
                json.dump({"property": self.pid, "clause": v["clause"], "detail": v["detail"],
                           "replay": v["replay"]}, fh, indent=1, default=str)
            print("VIOLATION property=%s replay=%s" % (self.pid, path))
            print("  clause=%s %s" % (v["clause"], v["detail"]))
            code = 1
        cov = {
            "states": self.states,
            "transitions": self.transitions,
            "traces_validated_against_impl": self.traces,
            "trace_events": self.events,
            "evaluations": self.evaluations,
            "distinct_nontrivial": len(self.distinct),
            "rule": rule,
            "samples": self.samples or ["(none)"],
            "tlc_runs": self.tlc_runs,
            "drift": self.drift[:20],
            "drift_count": len(self.drift),
            "known_findings_seen": self.known,
            "violating_clauses": sorted(seen),
        }
        if self.exhaustive is not None:
            cov["exhaustive"] = self.exhaustive
        cov.update(self.extra)
        ev = {
            "property_id": self.pid,
            "tier": self.tier,
            "seed": self.seed,
            "level": LEVEL,
            "coverage": cov,
            "assumptions": self.assumptions,
            "wall_s": round(wall, 2),
            "violations": len(self.violations),
        }
        with open(os.path.join(out_dir, self.pid + ".json"), "w") as fh:
            json.dump(ev, fh, indent=1, default=str)
        print("%s %s: %d TLC states, %d transitions, %d traces (%d events) validated, %d executions, "
              "%d violation(s), %d known finding(s), drift %d, %.1fs"
              % (self.pid, self.tier, self.states, self.transitions, self.traces, self.events,
                 self.evaluations, len(self.violations), len(self.known), len(self.drift), wall))
        return code
