"""python -m harness.run Cxx --tier quick|thorough [--replay path]"""
import argparse
import importlib
import os
import sys
import traceback


def main():
    if os.environ.get("PYTHONHASHSEED") != "0":
        env = dict(os.environ, PYTHONHASHSEED="0")
        os.execve(sys.executable, [sys.executable, "-m", "harness.run"] + sys.argv[1:], env)
    ap = argparse.ArgumentParser()
    ap.add_argument("pid")
    ap.add_argument("--tier", default=os.environ.get("VERIF_TIER", "quick"))
    ap.add_argument("--replay", default=None)
    a = ap.parse_args()
    seed = int(os.environ.get("VERIF_SEED", "0") or 0)
    from . import core, tlc
    try:
        mod = importlib.import_module("checks." + a.pid.lower())
        ctx = core.Ctx(a.pid, a.tier, seed)
        if a.replay:
            code = mod.replay(ctx, a.replay)
        else:
            code = mod.run(ctx)
        sys.stdout.flush()
        sys.exit(code)
    except tlc.MachineryError as e:
        sys.stderr.write("MACHINERY FAILURE (%s): %s\n" % (a.pid, e))
        sys.exit(2)
    except SystemExit:
        raise
    except BaseException:
        traceback.print_exc()
        sys.stderr.write("MACHINERY FAILURE (%s): unexpected exception in the harness\n" % a.pid)
        sys.exit(2)


if __name__ == "__main__":
    main()
