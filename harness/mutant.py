"""Run quick checks against a mutated copy of lasio:  python -m harness.mutant <patch.diff> [-R] C13 C15 ...
Copies /repo/lasio to /tmp/lasio-mut-<pid>/, applies the patch, runs the checks with VERIF_REPO pointing there,
prints one line per check, removes the copy."""
import os
import shutil
import subprocess
import sys


def main():
    args = sys.argv[1:]
    patch = args.pop(0)
    reverse = False
    if args and args[0] == "-R":
        reverse = True
        args.pop(0)
    tier = os.environ.get("VERIF_TIER", "quick")
    d = "/tmp/lasio-mut-%d" % os.getpid()
    shutil.rmtree(d, ignore_errors=True)
    os.makedirs(d)
    try:
        shutil.copytree("/repo/lasio", os.path.join(d, "lasio"))
        shutil.copytree("/repo/tests/examples", os.path.join(d, "tests", "examples"))
        cmd = ["patch", "-p1", "-s", "-d", d, "-i", os.path.abspath(patch)] + (["-R"] if reverse else [])
        if subprocess.call(cmd) != 0:
            print("PATCH FAILED", patch)
            return 2
        res = {}
        for pid in args:
            env = dict(os.environ, VERIF_REPO=d, VERIF_EVIDENCE_DIR=os.path.join(d, "evidence"))
            p = subprocess.run([sys.executable, "-m", "harness.run", pid, "--tier", tier], cwd="/verif", env=env,
                               stdout=subprocess.PIPE, stderr=subprocess.STDOUT, universal_newlines=True)
            lines = [l for l in p.stdout.splitlines() if l.startswith(("VIOLATION", "  clause", "KNOWN", "MACHINERY"))]
            res[pid] = p.returncode
            lines = [l for l in lines if not l.startswith("KNOWN")] + [l for l in lines if l.startswith("KNOWN")]
            print("%s exit=%d %s" % (pid, p.returncode, " | ".join(l[:260] for l in lines[:4])))
        return 0
    finally:
        shutil.rmtree(d, ignore_errors=True)


if __name__ == "__main__":
    sys.exit(main())
