"""Binding for the write->read properties C01 C03 C11 C12 (Trace_RoundTrip.tla)."""
import hashlib
import io
import json
import math
import re
from decimal import Decimal, InvalidOperation

import numpy as np

from . import core, tlc
from .copying import arr_digest

import lasio  # noqa: E402
from lasio.las_items import CurveItem, HeaderItem

# presentation classes of the writer (formats, widths, spacers, data width, header style)
PRES = [
    {},
    {"fmt": "%.2f"},
    {"fmt": "%.8f", "len_numeric_field": 30},
    {"fmt": "%.3e", "len_numeric_field": -1, "spacer": "  "},
    {"fmt": "%g", "lhs_spacer": "", "spacer": "\t"},
    {"fmt": "%.10g", "column_fmt": {0: "%.3f"}, "data_width": 40},
    {"fmt": "%.5f", "column_fmt": {1: "%.1f", 2: "%.7e"}, "lhs_spacer": "   ", "data_width": 132},
    {"fmt": "%.4f", "data_width": 1000, "data_section_header": "~A"},
    {"fmt": "%.6f", "data_width": 12},
    {"fmt": "%.3f", "len_numeric_field": 12, "spacer": " ", "data_width": 79},
    {"fmt": "%.1f", "len_numeric_field": -1},                      # unpadded fields narrower than the NULL marker
    {"fmt": "%.0f", "len_numeric_field": -1, "lhs_spacer": "", "spacer": "  "},
]
WILD = [0.0, -0.0, 1.0, -1.0, 5e-324, 2.2250738585072014e-308, 1e-300, 1e-10, 0.1, 0.3, 1 / 3.0, 2.5, 3.5, 123456.789, 1e5, 1e15, 1e16,
        9007199254740993.0, 1e22, 1.797e308, 1e300, -1e300, -999.25, -999.2500001, 999.25, 0.000015, 0.499999, 0.5,
        1.0000005, 99999.999995, 1e-5, 5e-6, 4.9e-6]


def ulp10(printed):
    d = Decimal(printed)
    return Decimal(1).scaleb(d.as_tuple().exponent)


def within_printed_precision(x, y, fmt):
    """|y - x| <= half a unit of the last digit `fmt % x` prints (+ 2 float ulps)."""
    printed = fmt % x
    try:
        half = ulp10(printed) / 2
    except InvalidOperation:
        return False
    diff = abs(Decimal(float(y)) - Decimal(float(x)))
    slack = Decimal(math.ulp(float(x)) * 2) if math.isfinite(x) else Decimal(0)
    return diff <= half + slack


def mask_for(kind, r, c):
    m = [[False] * c for _ in range(r)]
    if c < 2:
        return m
    if kind == "one":
        m[r - 1][c - 1] = True
    elif kind == "row":
        for j in range(1, c):
            m[0][j] = True
    elif kind == "col":
        for i in range(r):
            m[i][1] = True
    elif kind == "all":
        for i in range(r):
            for j in range(1, c):
                m[i][j] = True
    elif kind == "checker":
        for i in range(r):
            for j in range(1, c):
                m[i][j] = (i + j) % 2 == 0
    return m


def field_width(fmt, values):
    return max(len(fmt % v) for v in values)


def data_event(inst, rng, prop="C01"):
    C, R = inst["ncurves"], inst["nrows"]
    pres = dict(PRES[(inst["pres"] - 1) % len(PRES)])
    mask = mask_for(inst["mask"], R, C)
    las = lasio.LASFile()
    start = rng.choice([0.0, 100.0, 2500.5, -50.0, 1e6])
    step = rng.choice([0.5, 0.1524, 1.0, -0.25, 10.0])
    if inst.get("hyphens"):
        start, step = -50.0, -0.25            # a negative index (and, below, a negative NULL): a hyphen on every physical line
    idx = np.array([start + i * step for i in range(R)])
    cols = [idx]
    for j in range(1, C):
        col = np.array([rng.choice(WILD) if rng.random() < 0.5 else rng.uniform(-1e4, 1e4) for _ in range(R)])
        for i in range(R):
            if mask[i][j]:
                col[i] = np.nan
        cols.append(col)
    names = ["DEPT"] + ["C%d" % j for j in range(1, C)]
    if C > 3 and rng.random() < 0.3:
        names[2] = names[1]                  # duplicated mnemonic
    for n, col in zip(names, cols):
        las.append_curve(n, col, unit="m" if n == "DEPT" else "")
    null = rng.choice([-999.25, -9999, 1e30, 0, -9999.25, -99999.25, 2147483647, -999.2575, 1234567.5])      # (also > 6 significant digits)
    if inst.get("hyphens"):
        null = -999.25
    las.well["NULL"].value = null
    # a finite sample equal to NULL would legitimately come back as NaN: keep the data clear of the marker
    fmts = dict(pres.get("column_fmt", {}))
    fmt = pres.get("fmt", "%.5f")
    for j, col in enumerate(cols):
        if j == 0:
            continue
        for i in range(R):
            if col[i] == col[i] and float(fmts.get(j, fmt) % col[i]) == float(null):
                col[i] = 1.25        # (also samples that merely PRINT as the marker: inherent to the NULL convention)
    lnf = pres.get("len_numeric_field")
    if lnf not in (None, -1):
        # documented requirement: the field is wider than every formatted value
        finite = [v for col in cols for v in col if v == v]
        w = max([len((fmts.get(j, fmt)) % v) for j, col in enumerate(cols) for v in col if v == v] + [len(str(null))])
        if w >= lnf:
            pres["len_numeric_field"] = w + 2
    kw = dict(pres)
    kw["version"] = float(inst["version"])
    kw["wrap"] = bool(inst["wrap"])
    kw["mnemonics_header"] = bool(inst["mh"])
    ev = {"op": "data", "prop": prop, "ncurves": C, "nrows": R, "mask": mask, "names": names, "exc": "",
          "opts": {k: (str(v) if isinstance(v, dict) else v) for k, v in kw.items()}, "engine": inst["engine"],
          "obs": {"ncurves": 0, "nrows": 0, "names": [], "cells": []}}
    if R > 0 and C > 1 and rng.random() < 0.4:
        # the object has a history: it held other samples in a few cells when it was last looked at and written (las.data, df(),
        # a write with default options); the true values are then stored IN PLACE, into the arrays the curves already hold
        cells_ = [(rng.randrange(R), rng.randrange(1, C)) for _ in range(3)]
        true_ = [float(las.curves[j].data[i]) for i, j in cells_]
        try:
            for (i, j), t in zip(cells_, true_):
                las.curves[j].data[i] = 7.5 if t != t else np.nan
            las.data
            las.write(io.StringIO())
            if R < 50:
                las.df()
        except Exception:
            pass
        for (i, j), t in zip(cells_, true_):
            las.curves[j].data[i] = t
        ev["history"] = "written once with other samples; edited in place"
    s = io.StringIO()
    try:
        las.write(s, **{k: (dict(v) if isinstance(v, dict) else v) for k, v in kw.items()})
        text = s.getvalue()
        back = lasio.read(text, engine=inst["engine"])
    except Exception as e:
        ev["exc"] = "%s: %s" % (type(e).__name__, str(e)[:120])
        ev["text"] = s.getvalue()[:3000]
        return ev
    ev["text"] = text if len(text) < 3000 else text[:3000]
    obs = ev["obs"]
    obs["ncurves"] = len(back.curves)
    obs["names"] = [c.original_mnemonic for c in list.__iter__(back.curves)]
    lens = set(len(c.data) for c in list.__iter__(back.curves))
    obs["nrows"] = lens.pop() if len(lens) == 1 else -1
    if obs["ncurves"] == C and obs["nrows"] == R:
        cells = []
        for i in range(R):
            row = []
            for j in range(C):
                y = back.curves[j].data[i]
                x = cols[j][i]
                if not isinstance(y, (float, np.floating)):
                    row.append("CORRUPT")
                elif y != y:
                    row.append("NAN")
                elif x != x:
                    row.append("CORRUPT")
                else:
                    row.append("OK" if within_printed_precision(x, y, fmts.get(j, fmt)) else "CORRUPT")
            cells.append(row)
        obs["cells"] = cells
    return ev


def slim_data(ev):
    """The event as validated: without the bulky text; rows listed once per distinct (mask row, verdict row) pair -- the
    clauses of Trace_RoundTrip!TData quantify universally over the listed rows, so duplicates add nothing."""
    e = {k: v for k, v in ev.items() if k not in ("text", "opts")}
    cells = ev["obs"]["cells"]
    if cells and len(cells) == len(ev["mask"]):
        seen, m2, c2 = set(), [], []
        for mr, cr in zip(ev["mask"], cells):
            key = (tuple(mr), tuple(cr))
            if key not in seen:
                seen.add(key)
                m2.append(mr)
                c2.append(cr)
        e["mask"] = m2
        e["obs"] = dict(ev["obs"], cells=c2)
    else:
        e["mask"] = ev["mask"][:1]          # shape not recovered: the cell clauses are not evaluated
    return e


# ---------------------------------------------------------------- C03
ITEMS = [
    ("A", "", "", ""),
    ("BB", "m", "12.5", "short descr"),
    ("A", "ft", "text value", ""),
    ("", "", "7", "blank mnemonic"),
    ("LONGMNEMONIC123", "", "x", "d"),
    ("C", "verylongunit/abc", "", "unit wide and an empty value"),
    ("D", "u", "a rather long value with (brackets) [and] \"quotes\" + signs", "d"),
    ("E", "", "1e5", "a very long description, with punctuation; symbols (x) [y] {z} \"q\" 'r' / % é"),
    ("Strt", "M", "100", "mixed-case name"),
    ("e", "", "0", "lower-case variant of E"),
    ("F", "g/cm3", "-0.5", "d.with.dots"),
    ("G", "", "00123", "leading zeros"),
    ("Null", "", "5", "a second NULL-like name"),
    ("H2O", "%", "été", "non-ASCII value"),
    ("LOC", "", "1,980 FNL 660 FEL", "text with digit,digit"),
    ("NULL", "", "-999.2512345678", "second NULL"),
    ("STOP", "M", "250000.123456789", ""),
    ("T", "", "x", ""),
    ("LNG", "u", "v" * 300, "d" * 300),
    ("MNEMONIC_LONGER_THAN_ANY_WIDTH_0123456789", "", "1", "x"),
    ("KB", "ft(KB)", "12.5", "bracket at the end of a unit"),
    ("TVD", "m[TVD]", "", "square bracket at the end of a unit"),
    ("FRC", "(lbf)/ft", "3", "bracket at the start of a unit"),
    ("CND", "1/(ohm.m)", "0.5", "brackets and a period inside a unit"),
    ("TPL", "", "{0}", "format characters {0} %s %(x)d {} {"),
    ("GUID", "%", "{WELL_NAME}", "PL{}/7"),
    ("BRC", "", "{", "a lone brace } and a percent % sign"),
    ("PATH", "", "C\\data\\run 1", "back\\slashes"),
    ("HASH", "", "#3 bit", "a # inside ~ a value"),
    ("SERIAL", "", "9007199254740993", "2**53 + 1 - not a float"),
    ("I63", "", "9223372036854775807", "largest 64-bit integer"),
    ("N63", "", "-9223372036854775808", "smallest 64-bit integer"),
    ("P64", "", "18446744073709551616", "2**64 - beyond 64 bits, exactly a float"),
]


def canon(v):
    """numbers compared numerically: any numeric value or numeric-looking text -> '#' + normalised decimal"""
    if isinstance(v, (bool, np.bool_)):
        return str(v)
    if isinstance(v, (int, float, np.integer, np.floating)):
        if isinstance(v, (float, np.floating)) and v != v:
            return "nan"
        d = Decimal(int(v)) if (isinstance(v, (int, np.integer)) and -2 ** 63 <= int(v) < 2 ** 63) else Decimal(repr(float(v)))
        return "#" + format(d.normalize(), "f")
    s = str(v)
    t = s.strip()
    if re.fullmatch(r"[+-]?\d+", t) and -2 ** 63 <= int(t) < 2 ** 63:
        return "#" + str(int(t))            # integer literals that fit 64 bits are compared exactly (no detour through float)
    if re.fullmatch(r"[+-]?(\d+\.?\d*|\.\d+)([eE][+-]?\d+)?", t):
        try:
            return "#" + format(Decimal(repr(float(t))).normalize(), "f")
        except (InvalidOperation, ValueError):
            pass
    return s


def codes(s):
    return [ord(c) for c in s]


def case_map(case, s):
    return s.upper() if case == "upper" else s.lower() if case == "lower" else s


def proj_item(it, case=None):
    d = {"o": codes(it.original_mnemonic), "u": codes(str(it.unit)), "v": codes(canon(it.value)), "d": codes(str(it.descr)),
         "up": it.original_mnemonic.upper()}
    if case is not None:
        d["oc"] = codes(case_map(case, it.original_mnemonic))
    return d


def header_event(inst, rng, prop="C03"):
    sec, version, case = inst["sec"], inst["version"], inst["case"]
    las = lasio.LASFile()
    las.append_curve("DEPT", np.array([1.0, 2.0, 3.0]), unit="m", descr="index")
    if rng.random() < 0.35:
        # a terse ~Well section: only the mandatory items, short descriptions, a wide index (so that STRT/STOP/STEP/NULL values
        # decide the column widths)
        from lasio.las_items import SectionItems
        las.curves[0].data = np.array([250000.125, 250000.25, 250000.375])
        w = SectionItems()
        for m, u, v, d in (("STRT", "M", np.nan, ""), ("STOP", "M", np.nan, "s"), ("STEP", "M", np.nan, ""),
                           ("NULL", "", rng.choice([-999.25, -999.2500000001]), "")):
            w.append(HeaderItem(m, u, v, d))
        las.well = w
    target = {"Version": las.version, "Well": las.well, "Curves": las.curves, "Parameter": las.params}[sec]
    for k in inst["items"]:
        m, u, v, d = ITEMS[(k - 1) % len(ITEMS)]
        val = v
        if rng.random() < 0.5 and re.fullmatch(r"-?\d+(\.\d+)?", v) and sec != "Curves":
            val = float(v) if "." in v else int(v)          # numeric values as numbers
        if sec == "Curves":
            target.append(CurveItem(m, u, val, d, data=np.array([0.5, 1.5, 2.5])))
        else:
            target.append(HeaderItem(m, u, val, d))
    las.other = rng.choice(["first line of other text\nsecond line; with punctuation (and brackets)",
                            "first paragraph\n\nsecond paragraph, after an empty line\n# a line starting with a hash"])
    if rng.random() < 0.3:
        # the object under test is one that lasio READ with this case option (its sections compare case-insensitively)
        try:
            tmp = io.StringIO()
            las.write(tmp, version=2.0)
            # (sometimes without its data rows: a header-only object must be writable like any other)
            las = lasio.read(tmp.getvalue(), mnemonic_case=case, ignore_data=rng.random() < 0.35)
        except Exception:
            pass
    history = ""
    if rng.random() < 0.4:
        # the object has a history: it was written once while its items were still empty; units, values and descriptions were
        # filled in afterwards (attribute assignment on the items the sections already hold)
        saved = [(it, it.unit, it.value, it.descr) for sc in (las.well, las.params, las.curves) for it in list.__iter__(sc)]
        try:
            for it, u_, v_, d_ in saved:
                if it.original_mnemonic.upper() not in ("NULL",):
                    it.value, it.descr = "", ""
            las.write(io.StringIO(), version=float(version))
        except Exception:
            pass
        for it, u_, v_, d_ in saved:
            it.unit, it.value, it.descr = u_, v_, d_
        history = "written once with empty items; filled in afterwards"
    ev = {"op": "header", "prop": prop, "version": version, "case": case, "exc": "", "secs": [], "obs": [], "other": codes(las.other),
          "obs_other": [], "items": inst["items"], "sec": sec}
    names = [("Version", las.version), ("Well", las.well), ("Curves", las.curves), ("Parameter", las.params)]
    skip = {"Version": ("VERS", "WRAP")}
    for n, s in names:
        ev["secs"].append({"name": n, "items": [proj_item(it, case) for it in list.__iter__(s)
                                                if it.original_mnemonic.upper() not in skip.get(n, ())]})
    out = io.StringIO()
    try:
        las.write(out, version=float(version))
        back = lasio.read(out.getvalue(), mnemonic_case=case)
    except Exception as e:
        ev["exc"] = "%s: %s" % (type(e).__name__, str(e)[:100])
        ev["obs"] = [{"name": n, "items": []} for n, _ in names]
        ev["text"] = out.getvalue()[:3000]
        ev["wsecs"], ev["wlines"] = [], []
        return ev
    ev["text"] = out.getvalue()[:4000]
    # what the formatter saw (the object after write()) and the lines it produced, for the algorithm-layer comparison
    titles = {"W": "Well", "C": "Curves", "P": "Parameter"}        # by section letter: the title text is not specified
    written = {}
    cur = None
    for ln in out.getvalue().split("\n"):
        if ln.startswith("~"):
            cur = titles.get(ln[1:2].upper())
            if cur:
                written[cur] = []
        elif cur:
            written[cur].append(ln)
    ev["wsecs"], ev["wlines"] = [], []
    for n, sec_obj in (("Well", las.well), ("Curves", las.curves), ("Parameter", las.params)):
        its = list(list.__iter__(sec_obj))
        if len(written.get(n, [])) != len(its):
            continue
        ev["wsecs"].append({"name": n, "items": [{"o": codes(it.original_mnemonic), "u": codes(str(it.unit)), "v": codes(str(it.value)),
                                                  "d": codes(str(it.descr)), "up": it.original_mnemonic.upper()} for it in its]})
        ev["wlines"].append([codes(x) for x in written.get(n, [])])
    for n, _ in names:
        s = back.sections[n]
        ev["obs"].append({"name": n, "items": [proj_item(it) for it in list.__iter__(s)
                                               if it.original_mnemonic.upper() not in skip.get(n, ())]})
    ev["obs_other"] = codes(back.other)
    return ev


# ---------------------------------------------------------------- C11 / C12
def canon_typed(v):
    """as canon(), but text stays text even when it looks like a number (both sides of C11/C12 comparisons are read results)"""
    if isinstance(v, str):
        return "s:" + v
    return canon(v)


def content_digest(las, drop=()):
    """Canonical content of a read result: header items (numbers numerically, text as text) + ~Other + curve data."""
    secs = []
    for name, sec in las.sections.items():
        if isinstance(sec, str):
            secs.append([name, sec])
        else:
            secs.append([name, [[it.original_mnemonic, it.mnemonic, str(it.unit), canon_typed(it.value), str(it.descr)]
                                for it in list.__iter__(sec) if it.original_mnemonic.upper() not in drop]])
    arrays = [arr_digest(c.data) for c in list.__iter__(las.curves)]
    blob = json.dumps([secs, arrays], sort_keys=True, ensure_ascii=False)
    return hashlib.sha1(blob.encode("utf-8")).hexdigest()[:16], secs


def diff_items(a_secs, b_secs):
    """(section, original mnemonic, field) triples that differ between two canonical contents."""
    out = []
    for a, b in zip(a_secs, b_secs):
        if a == b:
            continue
        if not (isinstance(a[1], list) and isinstance(b[1], list)):
            out.append((a[0], "", "text"))
            continue
        if len(a[1]) != len(b[1]):
            out.append((a[0], "", "count"))
            continue
        for x, y in zip(a[1], b[1]):
            for k, f in enumerate(("original", "session", "unit", "value", "descr")):
                if x[k] != y[k]:
                    out.append((a[0], x[0], f, x[k], y[k]))
    return out


def cycle(text, kw, n, read_kw=None, assemble=False):
    """read x; then n times (write, re-read).  Returns (digests of the re-reads, info) -- 'EXC' when a step fails.
    assemble: the object that is written first was put together in steps - its header read with ignore_data=True, its samples
    (those of the file, the index moved by 1000) stored afterwards with set_data()."""
    read_kw = read_kw or {}
    out = []
    info = {"first_difference": None, "idxloss": False, "only_sss": False, "data_equal": True}
    try:
        las = lasio.read(text, **read_kw)
        if assemble:
            data = las.data
            if data.ndim != 2 or data.shape[0] == 0 or data.dtype.kind != "f" or len(las.curves) != data.shape[1]:
                return None, None
            head = lasio.read(text, ignore_data=True, **read_kw)
            if len(head.curves) != data.shape[1]:
                return None, None
            data = data.copy()
            data[:, 0] += 1000.0
            head.set_data(data)
            las = head
    except Exception:
        return None, None
    fmt0 = (kw.get("column_fmt") or {}).get(0, kw.get("fmt", "%.5f"))
    try:
        idx = las.index
        info["idxloss"] = bool(len(idx)) and idx.dtype.kind == "f" and any(x == x and float(fmt0 % x) != x for x in idx)
    except Exception:
        pass
    first = None
    first_arrays = None
    for i in range(n):
        s = io.StringIO()
        try:
            las.write(s, **{k: (dict(v) if isinstance(v, dict) else v) for k, v in kw.items()})
        except Exception as e:
            if i == 0:
                return None, None          # not "an input lasio can read and then write"
            out.append("EXC")
            info["first_difference"] = "write: %s: %s" % (type(e).__name__, str(e)[:100])
            break
        try:
            las = lasio.read(s.getvalue(), **read_kw)
        except Exception as e:             # lasio cannot read what it wrote: an observation, not a reason to skip
            out.append("EXC")
            info["first_difference"] = "re-read %d: %s: %s" % (i + 1, type(e).__name__, str(e)[:100])
            info["unreadable_output"] = s.getvalue()[:1500]
            break
        d, secs = content_digest(las)
        arrays = [arr_digest(c.data) for c in list.__iter__(las.curves)]
        if first is None:
            first, first_arrays = secs, arrays
        elif d != out[0] and info["first_difference"] is None:
            diffs = diff_items(first, secs)
            info["data_equal"] = arrays == first_arrays
            info["only_sss"] = bool(diffs) and info["data_equal"] and all(
                len(x) == 5 and x[0] == "Well" and x[1].upper() in ("STRT", "STOP", "STEP") and x[2] == "value" for x in diffs)
            info["first_difference"] = str(diffs[:3]) if diffs else "curve data changed"
        out.append(d)
    return out, info
