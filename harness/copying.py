"""Binding for C17: pickle / deepcopy of LASFile, sections and items (Trace_Copy.tla)."""
import copy
import glob
import hashlib
import io
import os
import pickle

import numpy as np

from . import core, section, tlc

import lasio  # noqa: E402
from lasio.las_items import CurveItem, HeaderItem, SectionItems

HOWS = ["pickle0", "pickle1", "pickle2", "pickle3", "pickle4", "pickle5", "deepcopy"]


def do_copy(obj, how):
    if how == "deepcopy":
        return copy.deepcopy(obj)
    return pickle.loads(pickle.dumps(obj, protocol=int(how[6:])))


PRIMS = (str, int, float, bool, type(None), np.integer, np.floating, np.bool_)


def val(v):
    if isinstance(v, float) and v != v:
        return "float:nan"
    if isinstance(v, PRIMS):
        return "%s:%r" % (type(v).__name__, v)
    if isinstance(v, (list, tuple)) and all(isinstance(x, PRIMS) for x in v):
        return "%s:%r" % (type(v).__name__, v)
    if isinstance(v, dict) and all(isinstance(k, PRIMS) and isinstance(x, PRIMS) for k, x in v.items()):
        return "dict:%r" % sorted(v.items(), key=repr)
    return "object:" + type(v).__name__          # (no repr(): it may contain an address)


def arr_digest(a):
    a = np.asarray(a)
    return hashlib.sha1(repr(a.dtype).encode() + repr(a.shape).encode() + a.tobytes()).hexdigest()[:12] \
        if a.dtype != object else hashlib.sha1(repr(a.tolist()).encode()).hexdigest()[:12]


def proj_items(sec):
    items = list(list.__iter__(sec))
    return ([i.mnemonic for i in items], [i.original_mnemonic for i in items],
            [[str(i.unit), val(i.value), str(i.descr)] for i in items])


def project(obj):
    """Observable content of a LASFile / SectionItems / HeaderItem as the record Trace_Copy compares."""
    p = {"names": [], "sess": [], "orig": [], "fields": [], "arrays": [], "dtypes": [], "iunit": "", "attrs": []}
    if isinstance(obj, lasio.LASFile):
        for name, sec in obj.sections.items():
            if isinstance(sec, str):
                p["names"].append([name, "str", False])
                p["sess"].append([])
                p["orig"].append([])
                p["fields"].append([[sec, "", ""]])
            else:
                p["names"].append([name, type(sec).__name__, bool(sec.mnemonic_transforms)])
                s, o, f = proj_items(sec)
                p["sess"].append(s)
                p["orig"].append(o)
                p["fields"].append(f)
        for c in list.__iter__(obj.curves):
            p["arrays"].append(arr_digest(c.data) if c.data is not None else "None")
            p["dtypes"].append(str(np.asarray(c.data).dtype) if c.data is not None else "None")
        p["iunit"] = str(obj.index_unit)
        for k in sorted(obj.__dict__):
            if k in ("sections", "index_unit", "_verif_engines"):
                continue
            v = obj.__dict__[k]
            p["attrs"].append([k, arr_digest(v) if isinstance(v, np.ndarray) else val(v)])
    elif isinstance(obj, SectionItems):
        p["names"].append(["section", type(obj).__name__, bool(obj.mnemonic_transforms)])
        s, o, f = proj_items(obj)
        p["sess"].append(s)
        p["orig"].append(o)
        p["fields"].append(f)
        for c in list.__iter__(obj):
            if isinstance(c, CurveItem):
                p["arrays"].append(arr_digest(c.data))
                p["dtypes"].append(str(np.asarray(c.data).dtype))
        p["attrs"] = [[k, val(v)] for k, v in sorted(obj.__dict__.items())]
    else:
        p["names"].append(["item", type(obj).__name__, False])
        p["sess"].append([obj.mnemonic])
        p["orig"].append([obj.original_mnemonic])
        p["fields"].append([[str(obj.unit), val(obj.value), str(obj.descr)]])
        d = obj.__dict__.get("data")
        if isinstance(obj, CurveItem):
            p["arrays"].append(arr_digest(obj.data))
            p["dtypes"].append(str(np.asarray(obj.data).dtype))
        p["attrs"] = [[k, val(v)] for k, v in sorted(obj.__dict__.items())
                      if k not in ("mnemonic", "original_mnemonic", "unit", "value", "descr", "data")]
    return p


def write_text(obj):
    """write() output of the LASFile that holds / is the object (digest), or the exception type."""
    if not isinstance(obj, lasio.LASFile):
        return "n/a"
    try:
        s = io.StringIO()
        obj.write(s)
        return hashlib.sha1(s.getvalue().encode("utf-8")).hexdigest()[:16]
    except Exception as e:   # objects lasio cannot write (text curves): compared by projection only
        return "ERR:" + type(e).__name__


def mutate(obj, kind):
    """Edit the copy in a way that must stay invisible to the original."""
    if isinstance(obj, lasio.LASFile):
        if kind == "field":
            if "STRT" in obj.well:
                obj.well["STRT"].descr = "mutated-descr"
            else:
                obj.well.append(HeaderItem("STRT", descr="mutated-descr"))
        elif kind == "array":
            if len(obj.curves) and isinstance(obj.curves[-1].data, np.ndarray) and len(obj.curves[-1].data):
                d = obj.curves[-1].data
                if d.dtype.kind == "f":
                    d[0] = d[0] + 12345.5 if d[0] == d[0] else 7.0
                elif d.dtype.kind in "iub":
                    d[0] = not d[0] if d.dtype.kind == "b" else d[0] + 7
                else:
                    d[0] = "mut"
            else:
                obj.append_curve("MUT", [1.0])
        elif kind == "append":
            obj.params.append(HeaderItem("MUTP", value=1))
        elif kind == "rename":
            if len(obj.curves):
                obj.curves[0].mnemonic = "RENAMED"
            else:
                obj.version.append(HeaderItem("MUTV"))
    elif isinstance(obj, SectionItems):
        if kind in ("field", "rename") and len(obj):
            if kind == "field":
                list.__getitem__(obj, 0).descr = "mutated-descr"
            else:
                list.__getitem__(obj, 0).mnemonic = "RENAMED"
        elif kind == "array" and len(obj) and isinstance(list.__getitem__(obj, 0), CurveItem) \
                and len(list.__getitem__(obj, 0).data):
            d = list.__getitem__(obj, 0).data
            d[0] = d[0] + 3.5 if d.dtype.kind == "f" else d[0]
            if d.dtype.kind != "f":
                obj.append(HeaderItem("MUT"))
        else:
            obj.append(HeaderItem("MUT"))
    else:
        if kind == "array" and isinstance(obj, CurveItem) and len(obj.data) and obj.data.dtype.kind == "f":
            obj.data[0] = obj.data[0] + 3.5
        elif kind == "rename":
            obj.mnemonic = "RENAMED"
        else:
            obj.descr = "mutated-descr"


def trace_for(build, how, target, kinds):
    """build() -> (root LASFile or section or item, select(root) -> object to copy)."""
    root, select = build()
    obj = select(root)
    try:
        cp = do_copy(obj, how)
    except Exception as x:          # an observation, not a harness failure: pickling / copying must work
        return [{"op": "copyfail", "how": how, "target": target, "exc": "%s: %s" % (type(x).__name__, str(x)[:200])}]
    ev = {"op": "copy", "how": how, "target": target, "orig": project(obj), "copy": project(cp)}
    ev["worig"] = write_text(obj)
    ev["wcopy"] = write_text(cp)
    ev["orig_w"] = project(obj)
    ev["copy_w"] = project(cp)
    tr = [ev]
    for kind in kinds:
        mutate(cp, kind)
        tr.append({"op": "mutate", "kind": kind, "orig": project(obj), "copy": project(cp)})
    return tr


def corpus():
    files = sorted(glob.glob(os.path.join(core.REPO, "tests", "examples", "*.las")))
    files += sorted(glob.glob(os.path.join(core.REPO, "tests", "examples", "*", "*.las")))
    return files
